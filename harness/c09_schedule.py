"""C09 (determinism clause) — CrossHair harness over the real control flow of Ptychography.reconstruct,
PtychographyBase.reset_recon, RNGMixin and SimpleBatcher.  The numerical work of an iteration is cut out
(stubs below): the "loss" of a step is an injective-enough function of the batch it was given and of the
step number, so the loss history is a fingerprint of the schedule.  The NumPy generator is a stand-in
whose stream is a deterministic function of (seed, number of draws so far) - which is the contract of
np.random.default_rng(seed)."""
import types

import numpy as np

import quantem.core.utils.rng as rngmod
import quantem.diffractive_imaging.ptycho_utils as pu
import quantem.diffractive_imaging.ptychography as pmod
from quantem.diffractive_imaging.ptychography import Ptychography

FIXED: dict = {}


def _fix(name, v):
    return v == FIXED[name] if name in FIXED else True


def _concrete(x, lo, hi):
    for k in range(lo, hi + 1):
        if x == k:
            return k
    raise ValueError(x)


class SeededStub:
    """default_rng(seed): the k-th draw of a generator made from `seed` is a fixed function of (seed, k)"""

    def __init__(self, seed):
        self.seed, self.draws = seed, 0
        self.bit_generator = types.SimpleNamespace(_seed_seq=types.SimpleNamespace(entropy=seed))

    def permutation(self, x):
        x = np.asarray(x)
        n = len(x)
        k = self.seed + self.draws
        self.draws += 1
        if n == 0:
            return x.copy()
        while k >= n:
            k -= n
        return np.concatenate([x[k:], x[:k]])


class _NPrng:
    random = types.SimpleNamespace(Generator=SeededStub, default_rng=lambda seed=0: SeededStub(0 if seed is None else seed))

    def __getattr__(self, name):
        return getattr(np, name)


class _TorchGen:
    def __init__(self, device=None):
        self.seed = None

    def manual_seed(self, s):
        self.seed = s
        return self

    def initial_seed(self):
        return self.seed


class _TorchRng:
    Generator = _TorchGen

    def __getattr__(self, name):
        import torch
        return getattr(torch, name)


class _Bar:
    """tqdm without the clock (progress reporting is not part of the property)"""

    def __init__(self, it, **kw):
        self.it = it

    def __iter__(self):
        return iter(self.it)

    def set_description(self, *a, **k):
        pass


class _NoGC:
    @staticmethod
    def collect():
        return 0


class _Loss:
    def __init__(self, v):
        self.v = v

    def __add__(self, o):
        return _Loss(self.v + (o.v if isinstance(o, _Loss) else o))

    __radd__ = __add__

    def item(self):
        return self.v

    def backward(self):
        pass


class _Model:
    DEFAULT_CONSTRAINTS: dict = {}

    def __init__(self, owner):
        self.owner, self.constraints = owner, {}

    def reset(self):
        self.owner.steps = 0

    def forward(self, *a, **k):
        return None

    def add_constraint(self, k, v):
        self.constraints[k] = v

    def reset_optimizer(self):
        pass


class _Dset(_Model):
    def __init__(self, owner, n):
        super().__init__(owner)
        self.num_gpts = n

    def reset(self):
        pass

    def _set_targets(self, loss_type):
        pass

    def forward(self, batch_indices, pad):
        return batch_indices, None, None, None


class _P(Ptychography):
    """the real reconstruct / reset_recon / rng plumbing with the numerical work of a step cut out"""
    optimizers: dict = {}
    scheduler_params: dict = {}
    optimizer_params: dict = {}

    def __init__(self, n, seed, ratio, mode):
        self.steps = 0
        self.trace = []
        self._device = "cpu"
        self.rng = seed                                   # the real RNGMixin setter
        self._verbose, self._logger = 0, None
        self._val_ratio, self._val_mode = ratio, mode
        self._store_snapshots, self._store_snapshot_every = False, 1
        self._obj_padding_px = (0, 0)
        self._iter_losses, self._iter_val_losses, self._iter_recon_types, self._iter_lrs, self._snapshots = [], [], [], {}, []
        self._obj_model, self._probe_model, self._detector_model = _Model(self), _Model(self), _Model(self)
        self._dset = _Dset(self, n)

    def _check_preprocessed(self):
        pass

    def compute_propagator_arrays(self):
        pass

    def set_optimizers(self):
        pass

    def set_schedulers(self, *a, **k):
        pass

    def step_schedulers(self, *a, **k):
        pass

    def _reset_iter_constraints(self):
        pass

    def zero_grad_all(self):
        pass

    def forward_operator(self, *a):
        return None, None

    def error_estimate(self, pred, batch_indices, loss_type="l2_amplitude"):
        self.steps += 1
        batch = [int(i) for i in batch_indices]
        self.trace.append(tuple(batch))
        v = 0
        for j, i in enumerate(batch):
            v += (j + 1) * (i + 1) * self.steps
        return _Loss(v), None

    def _soft_constraints(self):
        return _Loss(0)

    def backward(self, *a, **k):
        pass

    def step_optimizers(self):
        pass


def _run(n, seed, ratio, mode, first_iters, first_bs, iters, bs):
    """a seeded object, optionally a first stretch of iterations, then reconstruct(reset=True)"""
    old = (rngmod.np, rngmod.torch, pu.np, pmod.tqdm, pmod.gc)
    rngmod.np, rngmod.torch, pu.np, pmod.tqdm, pmod.gc = _NPrng(), _TorchRng(), _NPrng(), _Bar, _NoGC
    try:
        p = _P(n, seed, ratio, mode)
        if first_iters:
            p.reconstruct(num_iters=first_iters, reset=False, batch_size=first_bs)
        p.trace = []
        p.reconstruct(num_iters=iters, reset=True, batch_size=bs)
        return list(p.trace), [float(x) for x in p._iter_losses], [float(x) for x in p._iter_val_losses]
    finally:
        rngmod.np, rngmod.torch, pu.np, pmod.tqdm, pmod.gc = old


def same_after_reset(n: int, seed: int, p20: int, mode: bool, first_iters: int, first_bs: int, iters: int, bs: int) -> bool:
    """reconstruct(reset=True) on an object that has already run gives the loss history (and the schedule) of a fresh
    object made from the same seed

    pre: 1 <= n <= 5 and 0 <= seed <= 2 and 0 <= p20 <= 2 and 0 <= first_iters <= 2 and 1 <= first_bs <= 3 and 1 <= iters <= 2 and 1 <= bs <= 4
    pre: _fix("n", n) and _fix("mode", mode) and _fix("first_iters", first_iters) and _fix("iters", iters) and _fix("seed", seed)
    post: __return__ == True
    """
    return _same_after_reset(n, seed, p20, mode, first_iters, first_bs, iters, bs)


def _same_after_reset(n, seed, p20, mode, first_iters, first_bs, iters, bs):
    n, seed, p20 = _concrete(n, 1, 5), _concrete(seed, 0, 2), _concrete(p20, 0, 2)
    first_iters, first_bs, iters, bs = _concrete(first_iters, 0, 2), _concrete(first_bs, 1, 3), _concrete(iters, 1, 2), _concrete(bs, 1, 4)
    m = "random" if mode else "grid"
    ratio = (0.0, 0.25, 0.4)[p20]
    fresh = _run(n, seed, ratio, m, 0, first_bs, iters, bs)
    again = _run(n, seed, ratio, m, first_iters, first_bs, iters, bs)
    twin = _run(n, seed, ratio, m, 0, first_bs, iters, bs)
    return fresh == again and fresh == twin and len(fresh[1]) == iters


def same_after_reset__reach(n: int, seed: int, p20: int, mode: bool, first_iters: int, first_bs: int, iters: int, bs: int) -> bool:
    """
    pre: 1 <= n <= 5 and 0 <= seed <= 2 and 0 <= p20 <= 2 and 0 <= first_iters <= 2 and 1 <= first_bs <= 3 and 1 <= iters <= 2 and 1 <= bs <= 4
    post: __return__ == False
    """
    return _same_after_reset(n, seed, p20, mode, first_iters, first_bs, iters, bs)
