"""C09 — CrossHair harnesses over the real SimpleBatcher and batch subdivision helpers."""
import types

import numpy as np

import quantem.diffractive_imaging.ptycho_utils as pu
from quantem.core.utils.utils import generate_batches, subdivide_batches

FIXED: dict = {}


def _fix(name, v):
    return v == FIXED[name] if name in FIXED else True


class StubRng:
    """Generator.permutation contract: returns *some* permutation of its argument; which one is
    chosen by the solver (rotation by r in {0, 1}, optional reversal)"""

    def __init__(self, r, rev):
        self.r, self.rev, self.calls = r, rev, 0

    def permutation(self, x):
        self.calls += 1
        x = np.asarray(x)
        n = len(x)
        if n == 0:
            return x.copy()
        k = 1 if (self.r and n > 1) else 0
        out = np.concatenate([x[k:], x[:k]])
        return out[::-1].copy() if self.rev else out


class _NP:
    """numpy facade for ptycho_utils: only np.random.Generator / default_rng are replaced"""
    random = types.SimpleNamespace(Generator=StubRng, default_rng=lambda seed=None: StubRng(0, False))

    def __getattr__(self, name):
        return getattr(np, name)


def _concrete(x, lo, hi):
    """explicit fork: the selector becomes a plain int before it meets float arithmetic / NumPy"""
    for k in range(lo, hi + 1):
        if x == k:
            return k
    raise ValueError(x)


def _batcher(n, bs, shuffle, p, mode, r, rev):
    n, bs, p, r = _concrete(n, 1, 9), _concrete(bs, 0, 11), _concrete(p, 0, 19), _concrete(r, 0, 1)
    shuffle, mode, rev = bool(shuffle), bool(mode), bool(rev)
    old = pu.np
    pu.np = _NP()
    try:
        return pu.SimpleBatcher(n, bs if bs > 0 else None, shuffle=shuffle, rng=StubRng(r, rev),
                                val_ratio=p / 20.0, val_mode="random" if mode else "grid")
    finally:
        pu.np = old


def partition(n: int, bs: int, shuffle: bool, p: int, mode: bool, r: int, rev: bool) -> bool:
    """batches are an exact partition of the training set; train/val disjoint and covering;
    reported counts equal the numbers yielded; a second epoch visits the same set

    pre: 1 <= n <= 9 and 0 <= bs <= 11 and 0 <= p <= 19 and 0 <= r <= 1
    pre: _fix("n", n) and _fix("mode", mode) and _fix("shuffle", shuffle) and p in FIXED.get("p_in", range(20))
    post: __return__ == True
    """
    b = _batcher(n, bs, shuffle, p, mode, r, rev)
    n, bs = _concrete(n, 1, 9), _concrete(bs, 0, 11)
    size = bs if bs > 0 else n
    train = [int(i) for i in b.train_indices]
    val = [int(i) for i in b.val_indices]
    if set(train) & set(val) or sorted(train + val) != list(range(n)) or len(set(train)) != len(train):
        return False
    for epoch in range(2):
        batches = [[int(i) for i in bt] for bt in b]
        if len(batches) != len(b):
            return False
        if sorted(i for bt in batches for i in bt) != sorted(train):
            return False
        if any(len(bt) != size for bt in batches[:-1]) or (batches and not (1 <= len(batches[-1]) <= size)):
            return False
    vb = [[int(i) for i in bt] for bt in b.iter_val()]
    if len(vb) != b.val_len() or sorted(i for bt in vb for i in bt) != sorted(val):
        return False
    if any(len(bt) != size for bt in vb[:-1]) or (vb and not (1 <= len(vb[-1]) <= size)):
        return False
    return b.has_validation == (len(val) > 0)


def partition__reach(n: int, bs: int, shuffle: bool, p: int, mode: bool, r: int, rev: bool) -> bool:
    """
    pre: 1 <= n <= 9 and 0 <= bs <= 11 and 0 <= p <= 19 and 0 <= r <= 1
    post: __return__ == False
    """
    return partition(n, bs, shuffle, p, mode, r, rev)


def subdivide(n: int, mb: int, start: int) -> bool:
    """subdivide_batches / generate_batches with max_batch: sizes >= 1, <= max_batch, sum n,
    contiguous ranges from start_index (n and max_batch stay symbolic: no NumPy involved)

    pre: 1 <= n <= 40 and 1 <= mb <= 45 and -5 <= start <= 5
    post: __return__ == True
    """
    sizes = subdivide_batches(n, max_batch=mb)
    if sum(sizes) != n or any(s < 1 or s > mb for s in sizes):
        return False
    if max(sizes) - min(sizes) > 1:
        return False
    cur = start
    k = 0
    for a, b in generate_batches(n, max_batch=mb, start_index=start):
        if a != cur or b - a != sizes[k]:
            return False
        cur = b
        k += 1
    return cur == start + n and k == len(sizes)


def subdivide_num(n: int, nb: int) -> bool:
    """subdivide_batches with num_batches

    pre: 1 <= n <= 40 and 1 <= nb <= n
    post: __return__ == True
    """
    sizes = subdivide_batches(n, num_batches=nb)
    return len(sizes) == nb and sum(sizes) == n and all(s >= 1 for s in sizes) and max(sizes) - min(sizes) <= 1
