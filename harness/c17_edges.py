"""C17 — structure of the edge list built by the real _build_edges: exactly the 4-neighbour pairs (with or
without wrap-around) whose two ends are inside the mask; grid shape and mask bits are symbolic selectors."""
import torch

from quantem.core.utils.imaging_utils import _build_edges, _pixel_reliability

FIXED: dict = {}


def _fix(name, v):
    return v == FIXED[name] if name in FIXED else True


def _pick(menu, sel):
    for k, v in enumerate(menu):
        if sel == k:
            return v
    raise IndexError(sel)


SHAPES = [(1, 2), (1, 3), (2, 2), (2, 3), (3, 2), (3, 3), (1, 1), (3, 1)]


def edges(shape_sel: int, bits: int, wrap: bool, use_mask: bool) -> bool:
    """
    pre: 0 <= shape_sel < len(SHAPES) and 0 <= bits < 512 and _fix("shape_sel", shape_sel) and _fix("wrap", wrap)
    post: __return__ == True
    """
    return _edges(shape_sel, bits, wrap, use_mask)


def edges_after_other_call(shape_sel: int, bits: int, wrap: bool, use_mask: bool, prev_wrap: bool) -> bool:
    """the edge list does not depend on what was unwrapped before in the same process (an earlier unmasked call on the same grid
    shape with either boundary mode)

    pre: 0 <= shape_sel < len(SHAPES) and 0 <= bits < 512 and _fix("shape_sel", shape_sel) and _fix("wrap", wrap)
    post: __return__ == True
    """
    H, W = _pick(SHAPES, shape_sel)
    n = H * W
    phi = (torch.arange(n, dtype=torch.float32).reshape(H, W) * 0.37) % 3.0 - 1.5
    _build_edges(phi, _pixel_reliability(phi, None), None, wrap_around=bool(prev_wrap))
    return _edges(shape_sel, bits, wrap, use_mask)


def _edges(shape_sel, bits, wrap, use_mask):
    H, W = _pick(SHAPES, shape_sel)
    n = H * W
    m = [bool((bits >> i) & 1) for i in range(n)]
    if not use_mask:
        m = [True] * n
    mask = torch.tensor(m).reshape(H, W)
    phi = (torch.arange(n, dtype=torch.float32).reshape(H, W) * 0.37) % 3.0 - 1.5
    rel = _pixel_reliability(phi, mask if use_mask else None)
    i1, i2, inc = _build_edges(phi, rel, mask if use_mask else None, wrap_around=bool(wrap))
    got = sorted((int(a), int(b)) for a, b in zip(i1.tolist(), i2.tolist()))
    want = []
    for r in range(H):
        for c in range(W):
            a = r * W + c
            for dr, dc in ((0, 1), (1, 0)):
                rr, cc = r + dr, c + dc
                if wrap:
                    rr, cc = rr % H, cc % W
                elif rr >= H or cc >= W:
                    continue
                b = rr * W + cc
                if m[a] and m[b]:
                    want.append((a, b))
    return got == sorted(want)


def edges__reach(shape_sel: int, bits: int, wrap: bool, use_mask: bool) -> bool:
    """
    pre: 0 <= shape_sel < len(SHAPES) and 0 <= bits < 512
    post: __return__ == False
    """
    return edges(shape_sel, bits, wrap, use_mask)


def edges_after_other_call__reach(shape_sel: int, bits: int, wrap: bool, use_mask: bool, prev_wrap: bool) -> bool:
    """
    pre: 0 <= shape_sel < len(SHAPES) and 0 <= bits < 512
    post: __return__ == False
    """
    return edges_after_other_call(shape_sel, bits, wrap, use_mask, prev_wrap)
