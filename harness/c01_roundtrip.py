"""C01 — CrossHair harnesses: the real AutoSerialize.save / load (and everything below them)
run against the in-memory store model; object graphs are decoded from symbolic selectors and
carry symbolic int / float / str / bool payloads."""
from pathlib import Path

import numpy as np

import ser_common as sc

try:
    from crosshair import realize as _realize
except Exception:  # pragma: no cover
    def _realize(x):
        return x
from ser_common import Obj, Sub, Leaf, eq, obj_eq  # noqa: F401  (classes must be importable by name)

FIXED: dict = {}


def _fix(name, v):
    return v == FIXED[name] if name in FIXED else True


def _not_excluded(*args):
    """cases already reported as known findings are excluded when the runner re-explores the
    rest of a job's space (so that a different violation is still found)"""
    return all(tuple(args) != tuple(e) for e in FIXED.get("exclude", []))


N_SCALAR = 6      # int, float, str, bool, None, Path
N_CONT = 4        # list, tuple, dict, set
N_KINDS = N_SCALAR + N_CONT + 1     # + leaf from the concrete menu


INT_MENU = [0, 1, -1, 255, 2**31, -2**31 - 1, 2**53 + 1, -2**53 - 1, 2**62 + 1, 2**63 - 1, -2**63]
FLT_MENU = [0.0, 1.5, -2.25, 1e300, 5e-324, float("inf"), float("nan"), 0.1]
NUM_MENU = INT_MENU + FLT_MENU + [True, False]
NUM_IDX = list(range(len(NUM_MENU)))
QUICK_NUM_IDX = [1, 6, 10, 12, 17, 19]     # 1, 2^53+1, -2^63, 1.5, nan, True


class _Pool:
    """hands out the symbolic payloads in order, cycling"""

    def __init__(self, i, j, f, s, b, sel):
        self.ints, self.f, self.s, self.b, self.sel = [i, j], f, s, b, sel
        if isinstance(f, int) and not isinstance(f, bool):
            self.f = FLT_MENU[f]
        self.n = 0

    def int(self):
        self.n += 1
        return self.ints[self.n % 2] + (self.n // 2)


def _scalar(kind, pool, hashable=False):
    if hashable:
        # members of a set are hashed, which realises them: a symbolic string would be
        # enumerated without end, so set members are drawn from concrete values
        if kind == 0:
            return _realize(pool.int())
        if kind == 2:
            return "h" if pool.b else ""
    if kind == 0:
        return pool.int()
    if kind == 1:
        return pool.f
    if kind == 2:
        return pool.s
    if kind == 3:
        return pool.b
    if kind == 4:
        return None
    return Path("d") / "f"            # Path() realises its argument: concrete (more paths in the leaf menu)


def _value(kinds, pool, hashable=False):
    """decode one value from the list of kind selectors (consumed left to right)"""
    kind = kinds.pop(0) if kinds else 0
    if kind < N_SCALAR:
        return _scalar(kind, pool, hashable)
    if kind == N_SCALAR + N_CONT:
        if hashable:
            return sc.LEAVES[sc.LEAF_NAMES.index(sc.HASHABLE_LEAVES[pool.sel % len(sc.HASHABLE_LEAVES)])][1]()
        return sc.leaf(pool.sel)
    c = kind - N_SCALAR
    if c == 3:                                     # set: hashable members only
        a = _value(kinds, pool, hashable=True)
        b = _value(kinds, pool, hashable=True)
        return set(_concrete_if_numeric([_freeze(a), _freeze(b)]))
    a = _value(kinds, pool, hashable)
    b = _value(kinds, pool, hashable)
    if hashable:
        return _freeze((a, b))
    if c == 0:
        return _concrete_if_numeric([a, b])
    if c == 1:
        return tuple(_concrete_if_numeric([a, b]))
    return {"k": a, "m": b}            # keys are hashed (= realised): concrete; key kinds are covered by rt_keys


def _freeze(v):
    if isinstance(v, dict):
        v = tuple(v.values())
    if isinstance(v, (list, set, tuple)):
        return tuple(_freeze(x) for x in v)
    return v


def _concrete_if_numeric(seq):
    """an all-numeric sequence is handed to np.asarray by the serializer: NumPy cannot take
    CrossHair's proxy objects, so those payloads are realised here (the solver still chooses
    the value; see DESIGN.md on realisation at C boundaries)."""
    if len(seq) > 0 and all(sc._is_num(x) for x in seq):
        return [_realize(x) for x in seq]
    return seq


def _rt(o, store, twice=True):
    sc.prep(o)
    o2, o3 = sc.stub_roundtrip(o, store="zip" if store == 0 else "dir", twice=twice)
    ok = type(o2) is type(o) and obj_eq(o, o2) and (o3 is None or obj_eq(o2, o3))
    if not ok and sc.os.environ.get("VF_DEBUG"):
        print("DEBUG diff:", sc.diff(o, o2), "|", sc.diff(o2, o3), file=sc.sys.stderr)
    return ok


def rt_scalars(k0: int, k1: int, i: int, j: int, f: float, s: str, b: bool, store: int) -> bool:
    """two attributes holding symbolic scalars of any kind

    pre: 0 <= k0 < N_SCALAR and 0 <= k1 < N_SCALAR and 0 <= store <= 1 and _fix("k0", k0)
    pre: len(s) <= 2
    post: __return__ == True
    """
    pool = _Pool(i, j, f, s, b, 0)
    o = Obj()
    o.a = _scalar(k0, pool)
    o.n = _scalar(k1, pool)
    return _rt(o, store)


def rt_scalars__reach(k0: int, k1: int, i: int, j: int, f: float, s: str, b: bool, store: int) -> bool:
    """
    pre: 0 <= k0 < N_SCALAR and 0 <= k1 < N_SCALAR and 0 <= store <= 1
    pre: len(s) <= 2
    post: __return__ == False
    """
    return rt_scalars(k0, k1, i, j, f, s, b, store)


def rt_graph(k0: int, k1: int, k2: int, k3: int, k4: int, sel: int, i: int, j: int, f: int, s: str,
             b: bool) -> bool:
    """one attribute holding a container (k0) of two children (k1, k2); a container child
    takes its own children from (k3, k4) (depth 3); leaves come from the concrete menu by `sel`.
    Numbers that can end up in an all-numeric sequence are handed to NumPy by the serializer,
    so here ints range over [-1, 1] (+5 for the second one) and floats over {1.5, nan} (the full ranges are covered by
    rt_scalars, symbolic, and rt_numeric_seq, representatives).

    pre: N_SCALAR <= k0 < N_SCALAR + N_CONT and 0 <= k1 < N_KINDS and 0 <= k2 < N_KINDS
    pre: 0 <= k3 < N_KINDS and 0 <= k4 < N_KINDS and 0 <= sel < len(sc.LEAVES)
    pre: _fix("k0", k0) and _fix("k1", k1) and _fix("k2", k2) and _fix("k3", k3) and _fix("k4", k4) and _fix("sel", sel)
    pre: sc.LEAF_NAMES[sel] not in FIXED.get("skip_leaves", ())
    pre: len(s) <= 2
    pre: -1 <= i <= 1 and j == i + 5 and (f == 1 or f == 6) and _fix("i", i) and _fix("f", f)
    post: __return__ == True
    """
    pool = _Pool(i, j, f, s, b, sel)
    o = Obj()
    o.v = _value([k0, k1, k2, k3, k4, 0, 0, 0, 0], pool)
    o.w = 1
    return _rt(o, 0, twice=False)


def rt_graph__reach(k0: int, k1: int, k2: int, k3: int, k4: int, sel: int, i: int, j: int, f: int,
                    s: str, b: bool) -> bool:
    """
    pre: N_SCALAR <= k0 < N_SCALAR + N_CONT and 0 <= k1 < N_KINDS and 0 <= k2 < N_KINDS
    pre: 0 <= k3 < N_KINDS and 0 <= k4 < N_KINDS and 0 <= sel < len(sc.LEAVES)
    pre: len(s) <= 2
    pre: -1 <= i <= 1 and j == i + 5 and (f == 1 or f == 6)
    post: __return__ == False
    """
    return rt_graph(k0, k1, k2, k3, k4, sel, i, j, f, s, b)


WRAPS = 7


def _wrap(v, w, s):
    if w == 0:
        return v
    if w == 1:
        return [v, s]
    if w == 2:
        return (s, v)
    if w == 3:
        return {"k": v, "s": s}
    if w == 4:
        return {"d": [1.5, {"e": (v,), "0": s}]}
    if w == 5:
        return [[v]]
    return [v, v]


def rt_leaf(sel: int, w: int, s: str, store: int) -> bool:
    """every concrete leaf kind at every nesting position (attribute, in list / tuple / dict,
    depth-3 mixed nesting), next to a symbolic string

    pre: 0 <= sel < len(sc.LEAVES) and 0 <= w < WRAPS and 0 <= store <= 1
    pre: _fix("sel", sel) and _fix("w", w) and _not_excluded(sel, w)
    pre: not (sc.LEAF_NAMES[sel] == "big_int" and w >= 5)
    pre: len(s) <= 2
    post: __return__ == True
    """
    o = Obj()
    o.v = _wrap(sc.leaf(sel), w, s)
    o.tail = s
    return _rt(o, store)


def _numseq(n, a, b, c, tup, wrap):
    seq = [NUM_MENU[a], NUM_MENU[b], NUM_MENU[c]][:n]
    seq = tuple(seq) if tup else seq
    o = Obj()
    o.v = seq if wrap == 0 else ({"q": [seq, "x"]} if wrap == 1 else [seq, seq])
    return o


def rt_numeric_seq(n: int, a: int, b: int, c: int, tup: bool, wrap: int) -> bool:
    """all-numeric sequences (the serializer's ndarray fast path crosses into NumPy, so the
    members come from a menu of representatives by symbolic selector): ints over the whole
    int64 range, floats incl. nan/inf/denormal/huge, bools and every mixture of length <= 3,
    compared by numeric value

    pre: 1 <= n <= 3 and 0 <= a < len(NUM_MENU) and 0 <= b < len(NUM_MENU) and 0 <= c < len(NUM_MENU)
    pre: 0 <= wrap <= 2 and _fix("a", a) and _fix("n", n) and _fix("wrap", wrap) and _fix("c", c)
    pre: a in FIXED.get("menu", NUM_IDX) and b in FIXED.get("menu", NUM_IDX) and c in FIXED.get("menu", NUM_IDX)
    post: __return__ == True
    """
    return _rt(_numseq(n, a, b, c, tup, wrap), 1, twice=False)


def real__rt_numeric_seq(n, a, b, c, tup, wrap):
    return _real(_numseq(n, a, b, c, tup, wrap))


CPLX_MENU = [1j, 2.5 - 1j, complex(0.0, float("inf")), np.complex64(1 + 2j), np.complex128(-3.5j)]
CSEQ_MENU = [1, 2**53 + 1, -2**63, 2**63 - 1, np.int64(2**62 + 1), np.uint64(2**64 - 1), 1.5, True, 0.1] + CPLX_MENU


def _cplxseq(n, a, b, c, kind, wrap):
    seq = [CSEQ_MENU[a], CSEQ_MENU[b], CSEQ_MENU[c]][:n]
    seq = tuple(seq) if kind == 1 else (set(seq) if kind == 2 else seq)
    o = Obj()
    o.v = seq if wrap == 0 else ({"q": [seq, "x"]} if wrap == 1 else [seq, "t"])
    return o


def rt_complex_seq(n: int, a: int, b: int, c: int, kind: int, wrap: int) -> bool:
    """sequences / sets that mix complex members with (large) integers, floats and bools: every member keeps its value
    (and, since such a sequence is not all-real-numeric, its type)

    pre: 2 <= n <= 3 and 0 <= a < len(CSEQ_MENU) and 0 <= b < len(CSEQ_MENU) and len(CSEQ_MENU) - len(CPLX_MENU) <= c < len(CSEQ_MENU)
    pre: 0 <= kind <= 2 and 0 <= wrap <= 2 and _fix("a", a) and _fix("kind", kind) and _fix("wrap", wrap) and _fix("n", n)
    post: __return__ == True
    """
    if n == 2:
        b = c            # at least one member is complex
    return _rt(_cplxseq(n, a, b, c, kind, wrap), 1, twice=False)


def rt_complex_seq__reach(n: int, a: int, b: int, c: int, kind: int, wrap: int) -> bool:
    """
    pre: 2 <= n <= 3 and 0 <= a < len(CSEQ_MENU) and 0 <= b < len(CSEQ_MENU) and len(CSEQ_MENU) - len(CPLX_MENU) <= c < len(CSEQ_MENU)
    pre: 0 <= kind <= 2 and 0 <= wrap <= 2
    post: __return__ == False
    """
    if n == 2:
        b = c
    return _rt(_cplxseq(n, a, b, c, kind, wrap), 1, twice=False)


def real__rt_complex_seq(n, a, b, c, kind, wrap):
    if n == 2:
        b = c
    return _real(_cplxseq(n, a, b, c, kind, wrap))


def rt_nested_objects(depth: int, i: int, s: str, in_list: bool) -> bool:
    """AutoSerialize objects nested through attributes and through containers

    pre: 1 <= depth <= 3 and len(s) <= 2 and _fix("depth", depth)
    post: __return__ == True
    """
    inner = Leaf()
    inner.i = i
    inner.s = s
    cur = inner
    for d in range(depth):
        nxt = Sub()
        nxt.child = [cur, s] if in_list else cur
        nxt.tag = (d, s)
        cur = nxt
    o = Obj()
    o.root = cur
    o.both = {"x": inner}
    return _rt(o, 0)


def _longseq(n, kind, pos, s, i):
    """a sequence of n members that is not all-numeric (stored member by member): strings that name their position, one
    member replaced by the symbolic payload, one by a nested list"""
    seq = ["m%d" % k for k in range(n)]
    if n:
        seq[(0, n - 1, min(10, n - 1))[pos]] = s          # first, last, the first two-digit key
        seq[0] = [i, "first"] if kind >= 2 else seq[0]
    o = Obj()
    seq = tuple(seq) if kind in (1, 3) else seq
    o.v = seq if kind < 4 else {"k": [seq, "x"]}
    return o


def rt_long_seq(n: int, kind: int, pos: int, s: str, i: int, store: int) -> bool:
    """element order of sequences of every length 0..23 (member keys "0".."22": one, two digits)

    pre: 0 <= n <= 23 and 0 <= kind <= 4 and 0 <= pos <= 2 and len(s) <= 2 and 0 <= store <= 1
    pre: _fix("n", n) and _fix("kind", kind) and _fix("store", store)
    post: __return__ == True
    """
    for k in range(24):
        if n == k:
            for q in range(3):
                if pos == q:
                    return _rt(_longseq(k, kind, q, s, i), store, twice=False)
    return False


def real__rt_long_seq(n, kind, pos, s, i, store):
    return _real(_longseq(n, kind, pos, s, i))


KEYS = ["k", "0", "10", "values", "a b", "x.y", "tensor", "_k", "K", "is_path", "é"]
NAMES = ["v", "values", "_p", "x0", "tensor", "module", "a_b", "V"]


def rt_keys(ki: int, kj: int, ni: int, k0: int, k1: int, i: int, f: float, s: str, sel: int) -> bool:
    """dict keys and attribute names from a menu (they are hashed, hence concrete), values of
    every scalar kind or a concrete leaf

    pre: 0 <= ki < len(KEYS) and 0 <= kj < len(KEYS) and 0 <= ni < len(NAMES)
    pre: 0 <= k0 <= N_SCALAR and 0 <= k1 <= N_SCALAR and 0 <= sel < len(sc.LEAVES)
    pre: _fix("ki", ki) and _fix("sel", sel) and _fix("ni", ni) and _fix("k0", k0) and _fix("k1", k1)
    pre: sc.LEAF_NAMES[sel] not in FIXED.get("skip_leaves", ())
    pre: len(s) <= 2
    post: __return__ == True
    """
    return _rt(_keys_obj(ki, kj, ni, k0, k1, i, f, s, sel), 1, twice=False)


def _keys_obj(ki, kj, ni, k0, k1, i, f, s, sel):
    pool = _Pool(i, i + 1, f, s, True, sel)
    a = _scalar(k0, pool) if k0 < N_SCALAR else sc.leaf(sel)
    b = _scalar(k1, pool) if k1 < N_SCALAR else sc.leaf(sel)
    o = Obj()
    setattr(o, NAMES[ni], {KEYS[ki]: a, KEYS[kj]: b})
    setattr(o, NAMES[(ni + 3) % len(NAMES)], a)
    return o


def real__rt_keys(ki, kj, ni, k0, k1, i, f, s, sel):
    return _real(_keys_obj(ki, kj, ni, k0, k1, i, f, s, sel))


def _hist_obj(variant, i, s):
    """graph A (variant 0) and derived graphs B that drop / shorten / zero parts of it"""
    o = Obj()
    o.label = s
    o.n = i
    o.weights = sc.np.array([[1.0, 2.0], [3.0, 4.0]]) if variant != 3 else sc.np.zeros((2, 2))
    o.history = ["a", 1, "b", 2.5] if variant != 2 else ["a", 1]
    o.cfg = {"k": [1, 2, 3], "arr": sc.np.arange(3)} if variant != 4 else {"k": [1, 2, 3]}
    if variant not in (1, 5):
        o.scratch = sc.np.arange(5)
    if variant != 5:
        o.child = sc._sub()
    return o


def overwrite_history(va: int, vb: int, store: int, i: int, s: str) -> bool:
    """save graph A, then save a different graph B over the same target with mode='o': the target then
    loads to exactly B (nothing of A survives), for both stores

    pre: 0 <= va <= 5 and 0 <= vb <= 5 and 0 <= store <= 1 and len(s) <= 2
    post: __return__ == True
    """
    return _overwrite(sc.stub_two_saves, va, vb, store, i, s)


def _overwrite(driver, va, vb, store, i, s):
    va, vb = _pickv(va), _pickv(vb)
    a, b = _hist_obj(va, i, s), _hist_obj(vb, i + 1, s)
    got = driver(a, b, "zip" if store == 0 else "dir")
    return type(got) is type(b) and obj_eq(b, got)


def _pickv(v):
    for k in range(6):
        if v == k:
            return k
    raise IndexError(v)


def real__overwrite_history(va, vb, store, i, s):
    return _overwrite(sc.real_two_saves, va, vb, store, i, s)


# ----------------------------------------------------------------------------- replay on the real stores
def _real(o):
    rr = sc.real_roundtrip(o)
    return all(type(o2) is type(o) and obj_eq(o, o2) and obj_eq(o2, o3) for _, o2, o3 in rr)


def real__rt_scalars(k0, k1, i, j, f, s, b, store):
    pool = _Pool(i, j, f, s, b, 0)
    o = Obj()
    o.a = _scalar(k0, pool)
    o.n = _scalar(k1, pool)
    return _real(o)


def real__rt_graph(k0, k1, k2, k3, k4, sel, i, j, f, s, b):
    pool = _Pool(i, j, f, s, b, sel)
    o = Obj()
    o.v = _value([k0, k1, k2, k3, k4, 0, 0, 0, 0], pool)
    o.w = 1
    return _real(o)


def real__rt_leaf(sel, w, s, store):
    o = Obj()
    o.v = _wrap(sc.leaf(sel), w, s)
    o.tail = s
    return _real(o)


def real__rt_nested_objects(depth, i, s, in_list):
    inner = Leaf()
    inner.i = i
    inner.s = s
    cur = inner
    for d in range(depth):
        nxt = Sub()
        nxt.child = [cur, s] if in_list else cur
        nxt.tag = (d, s)
        cur = nxt
    o = Obj()
    o.root = cur
    o.both = {"x": inner}
    return _real(o)
