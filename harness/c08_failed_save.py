"""C08 — CrossHair harness: the real AutoSerialize.save() runs on the in-memory file system
whose k-th mutating operation raises; k is a solver variable. Afterwards the target must be
absent, unreadable, or load to a *complete* object of an earlier successful save."""
import numpy as np

import ser_common as sc
from ser_common import Obj, Sub, Leaf, eq, obj_eq  # noqa: F401
from vf.stubs.memfs import FS, Fault, FaultInterrupt, _p

FIXED: dict = {}


def _fix(name, v):
    return v == FIXED[name] if name in FIXED else True


class Unpicklable:
    def __reduce__(self):
        raise RuntimeError("cannot pickle")


def make(tag, shape, bad):
    """object graphs: shape 0 flat, 1 with nested object + containers, 2 with tensor/array mix;
    `bad` in 1..n places an unserialisable attribute at that position (0 = none)"""
    items = [("a", tag), ("arr", np.arange(1, 4)), ("z", "s"), ("d", {"k": [tag, "x"]})]
    if shape == 1:
        sub = Sub()
        sub.v = tag + 1
        sub.w = np.ones((2, 2))
        items += [("sub", sub), ("t", (1.5, "y"))]
    if shape == 2:
        items += [("ten", sc.torch.tensor([1.0, 2.0])), ("e", np.zeros((0, 2))), ("st", {1, 2})]
    if bad:
        pos = min(bad - 1, len(items))
        items.insert(pos, ("bad", Unpicklable() if bad % 2 else np.array([object()], dtype=object)))
    o = Obj()
    for k, v in items:
        setattr(o, k, v)
    return o


def _complete(o2, tags, shape):
    """loads to exactly one of the complete objects that were successfully saved before"""
    return any(obj_eq(make(t, shape, 0), o2) for t in tags)


def _same(snap, fs):
    files, dirs = snap
    return (set(files) == set(fs.files) and all(files[p] is fs.files[p] or files[p] == fs.files[p] for p in files)
            and dirs == fs.dirs)


def _outside_untouched(snap, fs, target):
    """no path other than the target (and the removed temporary directory) differs"""
    files, dirs = snap
    t = _p(target)

    def outside(p):
        return not (p == t or (len(p) > len(t) and p[:len(t)] == t))
    a = {p: c for p, c in files.items() if outside(p)}
    b = {p: c for p, c in fs.files.items() if outside(p)}
    da = {p for p in dirs if outside(p)}
    db = {p for p in fs.dirs if outside(p)}
    return set(a) == set(b) and all(a[p] is b[p] or a[p] == b[p] for p in a) and da == db


def failed_save(k: int, store: int, overwrite: bool, pre: int, shape: int, bad: int, tag: int) -> bool:
    """store 0 zip, 1 dir, 2 auto(.zip), 3 auto(dir), 4 zip given a path without the .zip suffix (the target
    is <path>.zip); pre 0 none, 1 complete object of the same store kind, 2 complete object of the other kind
    (file vs directory at the target path). FIXED["interrupt"]: the injected failure is a KeyboardInterrupt.
    For store 4 an unrelated directory object sits at the suffix-less path and must never be touched.

    pre: 0 <= k <= 90 and 0 <= store <= 4 and 0 <= pre <= 2 and 0 <= shape <= 2 and 0 <= bad <= 7
    pre: _fix("store", store) and _fix("overwrite", overwrite) and _fix("pre", pre) and _fix("shape", shape) and _fix("bad", bad)
    pre: k in FIXED.get("k_in", range(0, 91))
    post: __return__ == True
    """
    return _scenario(k, store, overwrite, pre, shape, bad, tag)


def failed_save__reach(k: int, store: int, overwrite: bool, pre: int, shape: int, bad: int, tag: int) -> bool:
    """
    pre: 0 <= k <= 90 and 0 <= store <= 3 and 0 <= pre <= 2 and 0 <= shape <= 2 and 0 <= bad <= 7
    post: __return__ == False
    """
    return _scenario(k, store, overwrite, pre, shape, bad, tag)


def _scenario(k, store, overwrite, pre, shape, bad, tag):
    fs = FS()
    fs.interrupt = bool(FIXED.get("interrupt"))
    zipkind = store in (0, 2, 4)
    path = "/work/o.zip" if zipkind else "/work/o"            # the real target
    arg = "/work/o" if store == 4 else path                     # what the caller passes
    kw = dict(store=["zip", "dir", "auto", "auto", "zip"][store])
    with sc.patched(fs):
        fs.write(_p("/work/neighbour.txt"), "keep me")
        fs._mkparents(_p("/work/other"))
        if store == 4:
            make(3, 0, 0).save("/work/o", mode="w", store="dir")     # unrelated object at the suffix-less spelling
        tags = []
        if pre == 1:
            make(7, shape, 0).save(path, mode="w", store="zip" if zipkind else "dir")
            tags.append(7)
        elif pre == 2:
            # a complete object of the *other* kind sits at the target path
            if zipkind:
                make(7, shape, 0).save("/work/o_dir", mode="w", store="dir")
                _rename(fs, "/work/o_dir", path)
            else:
                make(7, shape, 0).save("/work/o_tmp.zip", mode="w", store="zip")
                _rename(fs, "/work/o_tmp.zip", path)
            tags.append(7)
        snap = fs.snapshot()
        fs.n = 0
        fs.k = k
        raised = None
        try:
            make(tag, shape, bad).save(arg, mode="o" if overwrite else "w", **kw)
        except FileExistsError:
            fs.k = -1
            return (not overwrite) and pre != 0 and _same(snap, fs)      # write-once: nothing modified
        except FaultInterrupt as e:
            raised = e
        except Exception as e:      # injected fault or unserialisable attribute
            raised = e
        fs.k = -1
        if not _outside_untouched(snap, fs, path):
            return False
        if raised is None:
            if bad:
                return False                                  # an unserialisable attribute must not pass silently
            if not overwrite and pre != 0:
                return False                                  # write-once must have refused
            return _complete(sc.ser.load(path), [tag], shape)
        if not overwrite and pre != 0:
            return _same(snap, fs)
        if not fs.exists(path):
            return True
        try:
            o2 = sc.ser.load(path)
        except Exception:
            return True                                       # unreadable
        return _complete(o2, tags, shape)


def _rename(fs, a, b):
    a, b = _p(a), _p(b)
    for f in list(fs.files):
        if f == a or (len(f) > len(a) and f[:len(a)] == a):
            fs.files[b + f[len(a):]] = fs.files.pop(f)
    for d in list(fs.dirs):
        if d == a or (len(d) > len(a) and d[:len(a)] == a):
            fs.dirs.discard(d)
            fs.dirs.add(b + d[len(a):])


# ----------------------------------------------------------------------------- replay on the real file system
def real__failed_save(k, store, overwrite, pre, shape, bad, tag):
    """The model and the real stores do not number their write operations identically (zarr
    skips all-zero chunks, etc.), so the replay looks for the reproducing index among all write operations of the save."""
    ks = [k] + [x for x in range(1, 121) if x != k] if k > 0 else [0]
    return all(_real_one(x, store, overwrite, pre, shape, bad, tag) for x in ks)


def _real_one(k, store, overwrite, pre, shape, bad, tag):
    """the same scenario on the real stores; the k-th call among the serializer's write
    primitives (zarr attribute / array / group writes, ZipFile.write / close) raises OSError"""
    import os
    import shutil
    import tempfile
    import zipfile
    from unittest import mock
    import zarr

    d = tempfile.mkdtemp(prefix="vf_c08_")
    try:
        zipkind = store in (0, 2, 4)
        path = os.path.join(d, "o.zip" if zipkind else "o")
        arg = os.path.join(d, "o") if store == 4 else path
        kw = dict(store=["zip", "dir", "auto", "auto", "zip"][store])
        interrupt = bool(FIXED.get("interrupt"))
        with open(os.path.join(d, "neighbour.txt"), "w") as f:
            f.write("keep me")
        if store == 4:
            make(3, 0, 0).save(os.path.join(d, "o"), mode="w", store="dir")
        tags = []
        if pre == 1:
            make(7, shape, 0).save(path, mode="w", store="zip" if zipkind else "dir")
            tags.append(7)
        elif pre == 2:
            if zipkind:
                make(7, shape, 0).save(os.path.join(d, "o_dir"), mode="w", store="dir")
                os.rename(os.path.join(d, "o_dir"), path)
            else:
                make(7, shape, 0).save(os.path.join(d, "o_tmp.zip"), mode="w", store="zip")
                os.rename(os.path.join(d, "o_tmp.zip"), path)
            tags.append(7)

        def listing():
            out = {}
            for dp, dn, fn in os.walk(d):
                for x in fn:
                    p = os.path.join(dp, x)
                    with open(p, "rb") as fh:
                        out[p] = fh.read()
                for x in dn:
                    out[os.path.join(dp, x) + "/"] = None
            return out
        before = listing()
        count = {"n": 0}

        def faulty(orig):
            def w(*a, **kws):
                count["n"] += 1
                if count["n"] == k:
                    raise (KeyboardInterrupt if interrupt else OSError)("injected fault")
                return orig(*a, **kws)
            return w
        targets = [(zarr.core.attributes.Attributes, "__setitem__"), (zarr.Group, "create_array"),
                   (zarr.Group, "require_group"), (zarr.Array, "__setitem__"), (zipfile.ZipFile, "write"),
                   (zipfile.ZipFile, "close")]
        patches = [mock.patch.object(c, n, faulty(getattr(c, n))) for c, n in targets]
        patches += [mock.patch.object(sc.ser.os, "replace", faulty(os.replace))]
        raised = None
        for p in patches:
            p.start()
        try:
            make(tag, shape, bad).save(arg, mode="o" if overwrite else "w", **kw)
        except FileExistsError:
            for p in patches:
                p.stop()
            patches = []
            return (not overwrite) and pre != 0 and listing() == before
        except KeyboardInterrupt as e:
            raised = e
        except Exception as e:
            raised = e
        finally:
            for p in patches:
                p.stop()
        after = listing()
        inside = lambda p: p == path or p.startswith(path + "/") or p == path + "/"  # noqa: E731
        if {p: c for p, c in before.items() if not inside(p)} != {p: c for p, c in after.items() if not inside(p)}:
            return False
        if raised is None:
            if bad or (not overwrite and pre != 0):
                return False
            return _complete(sc.ser.load(path), [tag], shape)
        if not overwrite and pre != 0:
            return after == before
        if not os.path.exists(path):
            return True
        try:
            o2 = sc.ser.load(path)
        except Exception:
            return True
        return _complete(o2, tags, shape)
    finally:
        shutil.rmtree(d, ignore_errors=True)
