"""C14 — CrossHair harnesses for the serializer's skip lists: the real save()/load() on the
in-memory store model; which names / types are skipped at save and at load time is chosen by
symbolic selectors, payloads are symbolic."""
from pathlib import Path

import numpy as np

import ser_common as sc
from ser_common import Obj, Sub, Leaf, eq, obj_eq  # noqa: F401

FIXED: dict = {}


def _fix(name, v):
    return v == FIXED[name] if name in FIXED else True


NAMES = ["a", "b", "c", "p", "arr", "sub", "x", "flag", "absent", "values"]
NONE_N = len(NAMES)            # selector value meaning "no name"
TYPES = [int, str, np.ndarray, dict, Sub, Path, float]
NONE_T = len(TYPES)
ALL_N = list(range(NONE_N + 1))
ALL_T = list(range(NONE_T + 1))


def build(i, s, f):
    leaf = Leaf()
    leaf.a = i + 2
    leaf.x = s
    leaf.arr = np.array([1.5, 2.5])
    mid = Sub()
    mid.a = i + 1
    mid.b = "mid" + s
    mid.sub = leaf
    mid.c = {"k": [i, s]}
    mid.flag = False
    o = Obj()
    o.a = i
    o.b = s
    o.c = ["l", {"d": i}]
    o.p = Path("q") / "r"
    o.arr = np.arange(3)
    o.sub = mid
    o.flag = True
    o.f = 0.25 if f is None else f
    # names that also occur *inside* containers / in the storage layout (dict keys, the "values" dataset of a
    # numeric list, zarr's chunk directory "c") must not be affected by skipping the attribute of that name
    # (no AutoSerialize object inside a container: the property only quantifies over attribute-nested objects)
    o.d = {"a": i, "sub": "not an attribute", "arr": np.array([4, 5]), "x": [1.5, 2.5]}
    o.nums = [1.5, 2.5, 3.5]
    return o


def expected(o, names, types):
    """reference: drop attributes whose name is listed (at every depth of attribute-nested
    objects) or whose value is an instance of a listed type; nothing inside containers"""
    out = {}
    for k, v in vars(o).items():
        if k in names or (types and isinstance(v, tuple(types))):
            continue
        out[k] = expected(v, names, types) if isinstance(v, sc.AutoSerialize) else v
    return out


def tree_eq(exp, o):
    got = vars(o)
    if set(exp) != set(got):
        return False
    for k, v in exp.items():
        if isinstance(v, dict) and isinstance(got[k], sc.AutoSerialize):
            if not tree_eq(v, got[k]):
                return False
        elif not eq(v, got[k]):
            return False
    return True


def _pick(menu, sel):
    """explicit fork instead of menu[sel]: indexing a list of types with a symbolic int makes
    CrossHair invent a symbolic type"""
    for k, v in enumerate(menu):
        if sel == k:
            return v
    raise IndexError(sel)


def _names(n1, n2):
    return [_pick(NAMES, n) for n in (n1, n2) if n != NONE_N]


def _skiparg(names, types, form):
    items = list(names) + list(types)
    if form == 1 and len(items) == 1:
        return items[0]                      # bare str / type
    if form == 2:
        return tuple(items)
    return items


def _run(drv, s1, s2, l1, l2, t1, form, i, s, f, part=0):
    """part 0 = all three clauses; 1, 2, 3 = one clause (so that jobs can be split)"""
    save_names, load_names = _names(s1, s2), _names(l1, l2)
    types = [_pick(TYPES, t1)] if t1 != NONE_T else []
    o = build(i, s, f)
    o = sc.prep(o)
    both = expected(o, set(save_names) | set(load_names), types)
    if part in (0, 1):      # (1) skip at save and at load
        got = drv(o, _skiparg(save_names, types, form), _skiparg(load_names, [], form))
        if not tree_eq(both, got):
            return False
    if part in (0, 2):      # (2) skipping by name at load == skipping the same names at save
        at_load = drv(o, _skiparg([], types, form), _skiparg(save_names + load_names, [], form))
        if not tree_eq(both, at_load):
            return False
    if part in (0, 3):      # (3) recorded skips are honoured without being repeated; repeating changes nothing
        want = expected(o, set(save_names), types)
        if l1 == NONE_N:                     # load without repeating the recorded skips
            if not tree_eq(want, drv(o, _skiparg(save_names, types, form), ())):
                return False
        elif not tree_eq(want, drv(o, _skiparg(save_names, types, form), _skiparg(save_names, [], form))):
            return False
    return True


def _stub(o, skip, load_skip):
    return sc.stub_roundtrip(o, store="dir", skip=skip, load_skip=load_skip, twice=False)[0]


def _stub_zip(o, skip, load_skip):
    return sc.stub_roundtrip(o, store="zip", skip=skip, load_skip=load_skip, twice=False)[0]


def skips(s1: int, s2: int, l1: int, l2: int, t1: int, form: int, i: int, s: str, f: float) -> bool:
    """FIXED["part"] selects the clause (see _run)

    pre: 0 <= s1 <= NONE_N and 0 <= s2 <= NONE_N and 0 <= l1 <= NONE_N and 0 <= l2 <= NONE_N
    pre: 0 <= t1 <= NONE_T and 0 <= form <= 2
    pre: _fix("s1", s1) and _fix("s2", s2) and _fix("l1", l1) and _fix("l2", l2) and _fix("form", form)
    pre: l1 in FIXED.get("l1_in", ALL_N) and t1 in FIXED.get("t1_in", ALL_T) and s1 in FIXED.get("s1_in", ALL_N)
    pre: len(s) <= FIXED.get("maxlen", 2)
    post: __return__ == True
    """
    return _run(_stub, s1, s2, l1, l2, t1, form, i, "s" if FIXED.get("nostr") else s,
                None if FIXED.get("nofloat") else f, FIXED.get("part", 0))


def skips__reach(s1: int, s2: int, l1: int, l2: int, t1: int, form: int, i: int, s: str, f: float) -> bool:
    """
    pre: 0 <= s1 <= NONE_N and 0 <= s2 <= NONE_N and 0 <= l1 <= NONE_N and 0 <= l2 <= NONE_N
    pre: 0 <= t1 <= NONE_T and 0 <= form <= 2
    pre: len(s) <= 2
    post: __return__ == False
    """
    return _run(_stub, s1, s2, l1, l2, t1, form, i, s, f)


def skips_zip(s1: int, l1: int, t1: int, i: int, s: str) -> bool:
    """the same through the zip store branch of save()/load()

    pre: 0 <= s1 <= NONE_N and 0 <= l1 <= NONE_N and 0 <= t1 <= NONE_T and _fix("s1", s1) and _fix("t1", t1)
    pre: l1 in FIXED.get("l1_in", ALL_N)
    pre: len(s) <= FIXED.get("maxlen", 2)
    post: __return__ == True
    """
    return _run(_stub_zip, s1, NONE_N, l1, NONE_N, t1, 0, i, s, 0.5, 1)


# ----------------------------------------------------------------------------- replay on the real stores
def _real_drv(cfg):
    def drv(o, skip, load_skip):
        return sc.real_roundtrip(o, skip=skip, load_skip=load_skip, configs=[cfg], twice=False)[0][1]
    return drv


def real__skips(s1, s2, l1, l2, t1, form, i, s, f):
    return all(_run(_real_drv(cfg), s1, s2, l1, l2, t1, form, i, "s" if FIXED.get("nostr") else s,
                    None if FIXED.get("nofloat") else f, FIXED.get("part", 0))
               for cfg in sc.REAL_CONFIGS[:4])


def real__skips_zip(s1, l1, t1, i, s):
    return all(_run(_real_drv(cfg), s1, NONE_N, l1, NONE_N, t1, 0, i, s, 0.5) for cfg in sc.REAL_CONFIGS[:4])
