"""Shared pieces of the serializer harnesses (C01, C08, C14): test classes, leaf menu,
structural equality oracle, stubbed and real save/load drivers."""
import logging
import math
import os
import shutil
import sys
import tempfile
from pathlib import Path
from unittest import mock

import numpy as np
import torch

sys.path.insert(0, os.path.join(os.path.dirname(os.path.abspath(__file__)), ".."))
import quantem.core.io.serialize as ser  # noqa: E402
from quantem.core.io.serialize import AutoSerialize  # noqa: E402
from vf.stubs.memfs import FS, Fault, install  # noqa: E402

FIXED: dict = {}


class Obj(AutoSerialize):
    pass


class Sub(AutoSerialize):
    pass


class Leaf(AutoSerialize):
    pass


def _sub():
    s = Sub()
    s.a = 5
    s.arr = np.arange(4, dtype=np.int16).reshape(2, 2)
    s.t = ("x", 2.5)
    return s


def _linear():
    torch.manual_seed(0)
    return torch.nn.Linear(2, 1)


# Concrete leaves (they cross C boundaries, so they are selected, not symbolic).
LEAVES = [
    ("arr0d_f32", lambda: np.array(3.5, dtype=np.float32)),
    ("arr0d_i64", lambda: np.array(7)),
    ("arr_empty_1d", lambda: np.zeros((0,), dtype=np.float64)),
    ("arr_empty_2d", lambda: np.zeros((0, 3), dtype=np.int8)),
    ("arr_i8", lambda: np.array([1, -2, 3], dtype=np.int8)),
    ("arr_u64", lambda: np.array([[2**63, 1], [0, 5]], dtype=np.uint64)),
    ("arr_f32", lambda: np.array([[1.5, -2.0], [0.0, 4.25]], dtype=np.float32)),
    ("arr_c128", lambda: np.array([1 + 2j, -3.5j], dtype=np.complex128)),
    ("arr_bool", lambda: np.array([True, False, True])),
    ("arr_zeros", lambda: np.zeros((2, 2), dtype=np.float64)),
    ("arr_U2", lambda: np.array(["ab", "c"], dtype="<U2")),
    ("np_f32", lambda: np.float32(1.5)),
    ("np_i64", lambda: np.int64(-3)),
    ("np_u8", lambda: np.uint8(200)),
    ("np_bool", lambda: np.bool_(True)),
    ("np_f64", lambda: np.float64(2.25)),
    ("np_c64", lambda: np.complex64(1 + 2j)),
    ("t_f32", lambda: torch.tensor([[1.0, 2.0], [3.0, 4.0]])),
    ("t_c64", lambda: torch.tensor([1 + 2j, 3j], dtype=torch.complex64)),
    ("t_i64_0d", lambda: torch.tensor(5)),
    ("t_grad", lambda: torch.tensor([1.0, 2.0], requires_grad=True)),
    ("t_empty", lambda: torch.zeros((0, 2))),
    ("t_view_grad", lambda: torch.arange(8.0)[2:5].detach().requires_grad_(True)),          # a view of a larger storage
    ("t_view_t", lambda: torch.arange(6.0).reshape(2, 3).t()[1:]),                           # non-contiguous view
    ("t_param_view", lambda: torch.nn.Parameter(torch.arange(8.0)[1:4])),
    ("nn_linear", _linear),
    ("path", lambda: Path("some") / "dir" / "f.txt"),
    ("sub_obj", _sub),
    ("rng", lambda: np.random.default_rng(3)),
    ("logger", lambda: logging.getLogger("quantem.verif")),
    ("big_int", lambda: 2**70 + 1),
    ("nan", lambda: math.nan),
    ("inf", lambda: -math.inf),
    ("complex", lambda: 1 + 2j),
    ("bytes", lambda: b"ab\x00"),
    ("frozenset", lambda: frozenset({1, 2})),
    ("empty_list", lambda: []),
    ("empty_dict", lambda: {}),
    ("empty_tuple", lambda: ()),
    ("empty_str", lambda: ""),
]
LEAF_NAMES = [n for n, _ in LEAVES]
# NumPy scalars are left out of set members: CrossHair models a set as a linear scan that compares
# members with ==, and NumPy raises on `np.int64(..) == (nested, tuple)`, which plain sets never evaluate
HASHABLE_LEAVES = ["path", "big_int", "inf", "empty_tuple", "empty_str"]


def leaf(i):
    return LEAVES[i][1]()


def _is_num(x):
    return isinstance(x, (bool, int, float, np.integer, np.floating, np.bool_)) and not isinstance(x, (np.ndarray,))


def _num_eq(a, b):
    fa, fb = (a.item() if isinstance(a, np.generic) else a), (b.item() if isinstance(b, np.generic) else b)
    if isinstance(fa, float) and isinstance(fb, float) and fa != fa and fb != fb:
        return True
    return fa == fb


try:
    from crosshair import realize as _realize
except Exception:  # pragma: no cover
    def _realize(x):
        return x


def prep(v):
    """An all-numeric sequence is handed to np.asarray by the serializer; NumPy cannot take
    CrossHair's proxy objects, so those payloads are realised (the solver still chooses the
    value, see DESIGN.md on realisation at C boundaries). Everything else stays symbolic."""
    if isinstance(v, AutoSerialize):
        for k, x in list(vars(v).items()):
            setattr(v, k, prep(x))
        return v
    if isinstance(v, (list, tuple)):
        items = [prep(x) for x in v]
        if len(items) > 0 and all(_is_num(x) for x in items):
            items = [_realize(x) for x in items]
        return items if isinstance(v, list) else tuple(items)
    if isinstance(v, dict):
        return {k: prep(x) for k, x in v.items()}
    if isinstance(v, (set, frozenset)):
        items = [prep(x) for x in v]
        if len(items) > 0 and all(_is_num(x) for x in items):
            items = [_realize(x) for x in items]
        return type(v)(items)
    return v


def _all_numeric(seq):
    return len(seq) > 0 and all(_is_num(x) for x in seq)


def eq(a, b):
    """structural equality the property asks for (type-exact except where it says 'by numeric
    value': NumPy scalars and all-numeric sequences; rng / loggers by kind)."""
    if isinstance(a, np.ndarray) or isinstance(b, np.ndarray):
        return (isinstance(a, np.ndarray) and isinstance(b, np.ndarray) and a.dtype == b.dtype
                and a.shape == b.shape and bool(np.array_equal(a, b, equal_nan=a.dtype.kind in "fc")))
    if isinstance(a, torch.nn.Module) or isinstance(b, torch.nn.Module):
        if type(a) is not type(b):
            return False
        sa, sb = a.state_dict(), b.state_dict()
        return list(sa) == list(sb) and all(torch.equal(sa[k], sb[k]) for k in sa)
    if isinstance(a, torch.Tensor) or isinstance(b, torch.Tensor):
        return (isinstance(a, torch.Tensor) and isinstance(b, torch.Tensor) and a.dtype == b.dtype
                and isinstance(a, torch.nn.Parameter) == isinstance(b, torch.nn.Parameter)
                and a.shape == b.shape and a.requires_grad == b.requires_grad and bool(torch.equal(a, b)))
    if isinstance(a, np.random.Generator) or isinstance(b, np.random.Generator):
        return isinstance(a, np.random.Generator) and isinstance(b, np.random.Generator)
    if isinstance(a, logging.Logger) or isinstance(b, logging.Logger):
        return isinstance(a, logging.Logger) and isinstance(b, logging.Logger)
    if isinstance(a, AutoSerialize) or isinstance(b, AutoSerialize):
        return type(a) is type(b) and obj_eq(a, b)
    if isinstance(a, np.generic) or isinstance(b, np.generic):
        if isinstance(a, (np.complexfloating,)) or isinstance(b, (np.complexfloating,)):
            return complex(a) == complex(b)
        return _is_num(a) and _is_num(b) and _num_eq(a, b)
    if isinstance(a, (list, tuple)) and isinstance(b, (list, tuple)):
        if isinstance(a, list) != isinstance(b, list) or len(a) != len(b):
            return False
        if _all_numeric(a):
            return all(_is_num(y) and _num_eq(x, y) for x, y in zip(a, b))
        return all(eq(x, y) for x, y in zip(a, b))
    if isinstance(a, (set, frozenset)) and isinstance(b, (set, frozenset)):
        if isinstance(a, frozenset) != isinstance(b, frozenset) or len(a) != len(b):
            return False
        if _all_numeric(list(a)):                  # all-numeric: by numeric value, like sequences
            return all(_is_num(y) for y in b) and all(any(_num_eq(x, y) for y in b) for x in a)
        return all(any(eq(x, y) for y in b) for x in a)
    if isinstance(a, dict) and isinstance(b, dict):
        return set(a) == set(b) and all(eq(a[k], b[k]) for k in a)
    if isinstance(a, bool) or isinstance(b, bool):
        return isinstance(a, bool) and isinstance(b, bool) and a == b
    if isinstance(a, float) and isinstance(b, float):
        return a == b or (a != a and b != b)
    if isinstance(a, Path) or isinstance(b, Path):
        return isinstance(a, Path) and isinstance(b, Path) and a == b
    for t in (int, float, str, complex, bytes, type(None)):
        if isinstance(a, t) or isinstance(b, t):
            return isinstance(a, t) and isinstance(b, t) and a == b
    return type(a) is type(b) and a == b


def obj_eq(o, o2):
    va, vb = vars(o), vars(o2)
    return set(va) == set(vb) and all(eq(va[k], vb[k]) for k in va)


def diff(o, o2):
    va, vb = vars(o), vars(o2)
    if set(va) != set(vb):
        return f"attribute names differ: {sorted(va)} vs {sorted(vb)}"
    return "; ".join(f"{k}: {va[k]!r} -> {vb[k]!r}" for k in va if not eq(va[k], vb[k]))


from vf.stubs.memfs import untraced  # noqa: E402


class _Untraced:
    """module proxy: the named C-backed entry points run outside CrossHair's tracer (the tracer
    cannot construct pybind objects such as torch's file writer); they only ever receive the
    concrete leaves, never a symbolic value"""

    def __init__(self, mod, names):
        self._mod = mod
        for n in names:
            setattr(self, n, untraced(getattr(mod, n)))

    def __getattr__(self, name):
        return getattr(self._mod, name)


class patched:
    """swap the I/O names of quantem.core.io.serialize for the in-memory model (plain setattr:
    unittest.mock is slow under CrossHair's tracer)"""

    def __init__(self, fs):
        import dill
        import gzip
        self.new = install(fs)
        self.new.update(torch=_Untraced(torch, ["save", "load"]), dill=_Untraced(dill, ["dumps", "loads"]),
                        gzip=_Untraced(gzip, ["compress", "decompress"]))

    def __enter__(self):
        self.old = {k: getattr(ser, k) for k in self.new}
        for k, v in self.new.items():
            setattr(ser, k, v)
        return self

    def __exit__(self, *a):
        for k, v in self.old.items():
            setattr(ser, k, v)
        return False


# ----------------------------------------------------------------------------- drivers
def stub_roundtrip(o, store="zip", mode="w", skip=(), load_skip=(), twice=True):
    """real save()/load() on the in-memory model; returns (loaded, loaded_again)"""
    fs = FS()
    path = "/work/o.zip" if store == "zip" else "/work/o"
    with patched(fs):
        o.save(path, mode=mode, store=store, skip=skip)
        o2 = ser.load(path, skip=load_skip)
        o3 = None
        if twice:
            path2 = "/work/p.zip" if store == "zip" else "/work/p"
            o2.save(path2, mode=mode, store=store)
            o3 = ser.load(path2)
    return o2, o3


def stub_two_saves(a, b, store):
    fs = FS()
    path = "/work/o.zip" if store == "zip" else "/work/o"
    with patched(fs):
        a.save(path, mode="w", store=store)
        b.save(path, mode="o", store=store)
        return ser.load(path)


def real_two_saves(a, b, store):
    d = tempfile.mkdtemp(prefix="vf_ser_")
    try:
        p = os.path.join(d, "o.zip" if store == "zip" else "o")
        a.save(p, mode="w", store=store)
        b.save(p, mode="o", store=store)
        return ser.load(p)
    finally:
        shutil.rmtree(d, ignore_errors=True)


REAL_CONFIGS = [("zip", 4, str, "w"), ("dir", 4, str, "w"), ("zip", None, Path, "o"), ("dir", 0, Path, "o"),
                ("zip", 9, str, "o"), ("dir", 9, str, "w"), ("zip", 0, str, "w"), ("dir", None, str, "o"),
                ("auto", 1, Path, "w")]


def real_roundtrip(o, skip=(), load_skip=(), configs=None, twice=True):
    """the same through the real stores on disk; yields (config, loaded, loaded_again)"""
    out = []
    for store, level, ptype, mode in (configs or REAL_CONFIGS):
        d = tempfile.mkdtemp(prefix="vf_ser_")
        try:
            p = os.path.join(d, "o.zip" if store in ("zip", "auto") else "o")
            o.save(ptype(p), mode=mode, store=store, skip=skip, compression_level=level)
            o2 = ser.load(ptype(p), skip=load_skip)
            o3 = None
            if twice:
                p2 = os.path.join(d, "p.zip" if store in ("zip", "auto") else "p")
                o2.save(ptype(p2), mode=mode, store=store, compression_level=level)
                o3 = ser.load(ptype(p2))
            out.append(((store, level, ptype.__name__, mode), o2, o3))
        finally:
            shutil.rmtree(d, ignore_errors=True)
    return out
