"""C03 — CrossHair harnesses over the real Dataset containers: index expressions and operation
histories are chosen by symbolic selectors and small symbolic integer arguments."""
import numpy as np

from quantem.core.datastructures import Dataset2d, Dataset3d, Dataset4d, Dataset4dstem  # noqa: F401
from quantem.core.datastructures.dataset import Dataset

FIXED: dict = {}


def _fix(name, v):
    return v == FIXED[name] if name in FIXED else True


def _pick(menu, sel):
    for k, v in enumerate(menu):
        if sel == k:
            return v
    raise IndexError(sel)


SHAPES = {1: (3,), 2: (2, 3), 3: (1, 3, 2), 4: (2, 1, 3, 2), 5: (2, 2, 1, 2, 3)}
CLASSES = {1: Dataset, 2: Dataset2d, 3: Dataset3d, 4: Dataset4d, 5: Dataset}


def make(ndim, stem=False, dtype=float):
    shape = SHAPES[ndim]
    arr = (np.arange(int(np.prod(shape))) * 3 + 1).reshape(shape).astype(dtype)
    cls = Dataset4dstem if (stem and ndim == 4) else CLASSES[ndim]
    return cls.from_array(arr, name="d", origin=[10.0 * i + 1 for i in range(ndim)],
                          sampling=[0.5 * (i + 1) for i in range(ndim)], units=["u%d" % i for i in range(ndim)])


def axis_menu(n):
    return [0, -1, slice(None), slice(1, None), slice(None, None, 2), slice(None, None, -1), slice(0, 1), [0], [n - 1, 0],
            slice(None, None, 3), np.int64(0), np.int32(n - 1)]


N_MENU = 12


def class_ok(ds):
    """the class matches the dimensionality: a dimension-specific class only holds that dimension"""
    for nd, cls in Dataset._registry.items():
        if isinstance(ds, cls) and ds.ndim != nd:
            return False
    return True


def coherent(ds):
    return (len(ds.origin) == ds.ndim and len(ds.sampling) == ds.ndim and len(ds.units) == ds.ndim
            and ds.array.ndim == ds.ndim and class_ok(ds))


def same(a, b):
    return (type(a) is type(b) and a.array.dtype == b.array.dtype and a.array.shape == b.array.shape
            and np.array_equal(a.array, b.array) and np.array_equal(a.origin, b.origin)
            and np.array_equal(a.sampling, b.sampling) and list(a.units) == list(b.units)
            and a.signal_units == b.signal_units)


def close(a, b):
    return (type(a) is type(b) and a.array.shape == b.array.shape and np.allclose(a.array, b.array, atol=1e-9)
            and np.allclose(a.origin, b.origin) and np.allclose(a.sampling, b.sampling) and list(a.units) == list(b.units))


def indexing(ndim: int, k0: int, k1: int, k2: int, k3: int, k4: int, length: int, ell: int, stem: bool) -> bool:
    """ds[index] for an index tuple of `length` entries (trailing axes omitted), per-axis entry
    from the menu, an Ellipsis inserted at position `ell` (ell > length: none)

    pre: 1 <= ndim <= 5 and 0 <= k0 < N_MENU and 0 <= k1 < N_MENU and 0 <= k2 < N_MENU and 0 <= k3 < N_MENU and 0 <= k4 < N_MENU
    pre: 1 <= length <= ndim and 0 <= ell <= length + 1
    pre: _fix("ndim", ndim) and _fix("k0", k0) and _fix("k3", k3) and _fix("k4", k4) and _fix("stem", stem) and _fix("k2", k2)
    post: __return__ == True
    """
    return _indexing(ndim, [k0, k1, k2, k3, k4], length, ell, stem)


def indexing__reach(ndim: int, k0: int, k1: int, k2: int, k3: int, k4: int, length: int, ell: int, stem: bool) -> bool:
    """
    pre: 1 <= ndim <= 5 and 0 <= k0 < N_MENU and 0 <= k1 < N_MENU and 0 <= k2 < N_MENU and 0 <= k3 < N_MENU and 0 <= k4 < N_MENU
    pre: 1 <= length <= ndim and 0 <= ell <= length + 1
    post: __return__ == False
    """
    return _indexing(ndim, [k0, k1, k2, k3, k4], length, ell, stem)


def _indexing(ndim, ks, length, ell, stem):
    ndim = _pick([1, 2, 3, 4, 5], ndim - 1)
    length = _pick([1, 2, 3, 4, 5], length - 1)
    ds = make(ndim, stem)
    before = ds.copy()
    shape = SHAPES[ndim]
    # entries address the leading axes, or (with an Ellipsis at position ell) the leading `ell`
    # and the trailing `length - ell` axes
    has_ell = ell <= length
    ell = _pick(list(range(7)), ell)
    if has_ell:
        axes = list(range(ell)) + list(range(ndim - (length - ell), ndim))
        if len(set(axes)) != len(axes) or len(axes) > ndim:
            return True
    else:
        axes = list(range(length))
    entries = [_pick(axis_menu(shape[ax]), ks[j]) for j, ax in enumerate(axes)]
    if sum(isinstance(e, list) for e in entries) > 1:
        return True                                   # more than one list index: outside the claim
    idx = list(entries)
    if has_ell:
        idx.insert(ell, Ellipsis)
    index = tuple(idx) if (len(idx) > 1 or has_ell) else idx[0]
    want = ds.array[index]
    if want.ndim == 0:
        return True                                   # must leave at least one axis
    out = ds[index]
    if not same(ds, before):
        return False                                  # source untouched
    full = {ax: e for ax, e in zip(axes, entries)}
    kept = [ax for ax in range(ndim) if not isinstance(full.get(ax, slice(None)), (int, np.integer))]
    exp_origin = [10.0 * ax + 1 for ax in kept]
    exp_sampling = []
    for ax in kept:
        e = full.get(ax, slice(None))
        step = e.step if isinstance(e, slice) and e.step is not None else 1
        exp_sampling.append(0.5 * (ax + 1) * step)
    if not (coherent(out) and out.array.shape == want.shape and np.array_equal(out.array, want)):
        return False
    if list(out.units) != ["u%d" % ax for ax in kept]:
        return False
    if not (np.allclose(out.origin, exp_origin) and np.allclose(out.sampling, exp_sampling)):
        return False
    if out.ndim == ndim:
        return type(out) is type(ds)
    return type(out) is Dataset._registry.get(out.ndim, Dataset)


# ----------------------------------------------------------------------------- operation histories
N_OPS = 12


def apply(ds, op, a, b, inplace):
    """returns the resulting dataset (the same object for in-place operations)"""
    nd = ds.ndim
    ax = a if a < nd else nd - 1
    if op == 0:
        return ds.copy()
    if op == 1:
        ds.origin = [float(b + i) for i in range(nd)]
        return ds
    if op == 2:
        ds.sampling = [0.25 * (b + 1 + i) for i in range(nd)]
        return ds
    if op == 3:
        ds.units = ["v%d" % (b + i) for i in range(nd)]
        return ds
    if op == 4:
        r = ds.pad(pad_width=tuple((b if i == ax else 0, (b + 1) // 2 if i == ax else 0) for i in range(nd)),
                   modify_in_place=inplace)
    elif op == 5:
        r = ds.pad(output_shape=tuple(ds.shape[i] + (b if i == ax else 0) for i in range(nd)), modify_in_place=inplace)
    elif op == 6:
        if ds.shape[ax] < 2:
            return ds
        r = ds.crop(((1 if b % 2 else 0, -1 if b >= 2 else 0),), axes=(ax,), modify_in_place=inplace)
    elif op == 7:
        r = ds.bin(b + 1, axes=ax, modify_in_place=inplace, reducer="sum")
    elif op == 8:
        r = ds.bin(tuple(1 + ((b + i) % 2) for i in range(nd)), modify_in_place=inplace, reducer="mean")
    elif op == 9:
        r = ds.fourier_resample(out_shape=(b + 1,), axes=(ax,), modify_in_place=inplace)
    elif op == 10:
        r = ds.fourier_resample(factors=0.5 * (b + 1), modify_in_place=inplace)
    else:
        if ds.shape[ax] < 1:
            return ds
        idx = tuple([slice(None)] * ax + [_pick([0, slice(None, None, 2), slice(0, 1), [0], slice(None, None, -1)], b)])
        if nd == 1 and b == 0:
            return ds
        return ds[idx]
    return ds if inplace else r


def step_ok(ds, op, a, b, inplace):
    """one operation: invariants, source untouched by the copying variant, in-place == copying"""
    if any(s == 0 for s in ds.shape):
        return ds, True
    src = ds.copy()
    twin = ds.copy()
    try:
        out = apply(ds, op, a, b, inplace)
    except (ValueError, IndexError, TypeError):
        # rejected arguments: both variants must reject, and the copying variant must not have touched the source
        try:
            apply(twin, op, a, b, not inplace)
        except (ValueError, IndexError, TypeError):
            return ds, (inplace or same(ds, src))
        return ds, False
    if not coherent(out):
        return out, False
    if op >= 4 and op <= 10:
        other = apply(twin, op, a, b, not inplace)
        if not close(out, other) or out.array.dtype != other.array.dtype:
            return out, False
        if not inplace and not same(ds, src):
            return out, False
        if inplace and not same(twin, src):
            return out, False
    elif op in (0, 11) and not same(ds, src):
        return out, False
    return out, True


def history(ndim: int, stem: bool, o1: int, a1: int, b1: int, i1: bool, o2: int, a2: int, b2: int, i2: bool,
            o3: int, a3: int, b3: int, i3: bool) -> bool:
    """three operations (o == N_OPS: none) on a dataset of the given dimensionality

    pre: 1 <= ndim <= 5 and 0 <= o1 <= N_OPS and 0 <= o2 <= N_OPS and 0 <= o3 <= N_OPS
    pre: 0 <= a1 <= 2 and 0 <= a2 <= 2 and 0 <= a3 <= 2 and 0 <= b1 <= 3 and 0 <= b2 <= 3 and 0 <= b3 <= 3
    pre: _fix("ndim", ndim) and _fix("stem", stem) and _fix("o1", o1) and _fix("o2", o2) and _fix("o3", o3)
    pre: _fix("a2", a2) and _fix("a3", a3) and _fix("b3", b3) and _fix("i3", i3) and _fix("i2", i2) and _fix("b2", b2) and _fix("i1", i1)
    post: __return__ == True
    """
    return _history(ndim, stem, [(o1, a1, b1, i1), (o2, a2, b2, i2), (o3, a3, b3, i3)])


def _history(ndim, stem, ops):
    ndim = _pick([1, 2, 3, 4, 5], ndim - 1)
    ds = make(ndim, bool(stem))
    earlier = []                       # (dataset that an operation returned a *new* dataset from, its snapshot)
    for (o, a, b, i) in ops:
        o = _pick(list(range(N_OPS + 1)), o)
        if o == N_OPS:
            continue
        a, b, i = _pick([0, 1, 2], a), _pick([0, 1, 2, 3], b), bool(i)
        prev = ds
        ds, ok = step_ok(ds, o, a, b, i)
        if not ok:
            return False
        if ds is not prev:
            if o in (0, 4, 5, 6, 7, 8, 9, 10):
                earlier.append((prev, prev.copy()))
        elif (not i and o in (4, 5, 6, 7, 8, 9, 10) and not any(s == 0 for s in prev.shape)
              and not (o == 6 and prev.shape[min(a, prev.ndim - 1)] < 2)):     # apply() skips that crop
            return False               # the copying variant must hand out a new object, not the source itself
        # later operations (in place or not) on the result never reach back into an earlier source
        for src, snap in earlier:
            if src is not ds and not same(src, snap):
                return False
    return True


def history__reach(ndim: int, stem: bool, o1: int, a1: int, b1: int, i1: bool) -> bool:
    """
    pre: 1 <= ndim <= 5 and 0 <= o1 < N_OPS and 0 <= a1 <= 2 and 0 <= b1 <= 3
    post: __return__ == False
    """
    return _history(ndim, stem, [(o1, a1, b1, i1)])
