"""C19 — CrossHair harnesses over the real quantem.core.config functions.

Every harness builds a private config dict / defaults list (module globals are untouched),
drives the real set / get / update_defaults / refresh with operations chosen by symbolic
selectors and compares with a dictionary reference model on canonical ('-' -> '_') keys.
"""
import copy

from quantem.core import config as qc

FIXED: dict = {}      # selector pins, set by the runner to split the space over processes


def _fix(name, v):
    return v == FIXED[name] if name in FIXED else True


SEG1 = ["a", "a_b", "a-b", "c_d"]
SEG2 = ["", "x", "x_y", "x-y"]
NOPATH = "/nonexistent-quantem-config-dir"


def _canon(s):
    return s.replace("-", "_")


def _key(i, j):
    return SEG1[i] + ("." + SEG2[j] if j else "")


def _alt(key):
    return ".".join(p.replace("_", "-") if "_" in p else p.replace("-", "_") for p in key.split("."))


def _norm(d):
    """canonicalise keys recursively; None if two spellings of one key coexist"""
    out = {}
    for k, v in d.items():
        ck = _canon(k)
        if ck in out:
            return None
        if isinstance(v, dict):
            v = _norm(v)
            if v is None:
                return None
        out[ck] = v
    return out


def _model_set(model, parts, val):
    """reference: last writer wins on the dotted path; returns False if the real call must raise"""
    d = model
    for p in parts[:-1]:
        if p in d and not isinstance(d[p], dict):
            return False
        d = d.setdefault(p, {})
    d[parts[-1]] = val
    return True


def _model_get(model, parts):
    d = model
    for p in parts:
        d = d[p]
    return d


def _nested(parts, val):
    d = val
    for p in reversed(parts):
        d = {p: d}
    return d


def _model_merge(old, new, mode, dfl):
    """reference for update(): mode 'new' or 'new-defaults' (dfl = previous defaults, canonical)"""
    for k, v in new.items():
        if isinstance(v, dict):
            if k not in old or not isinstance(old[k], dict):
                old[k] = {}
            sub = dfl.get(k) if isinstance(dfl, dict) else None
            _model_merge(old[k], v, mode, sub if isinstance(sub, dict) else {})     # a scalar default says nothing about nested entries
        else:
            if mode == "new" or k not in old or (k in dfl and dfl[k] == old[k]):
                old[k] = v


class _State:
    def __init__(self):
        self.cfg = {}
        self.dfl = []          # real defaults list handed to the library
        self.m_cfg = {}        # reference model of config (canonical keys)
        self.m_dfl = {}        # reference model of accumulated defaults


def _step(st, op, i, j, val):
    """apply one operation to the real store and to the model; False = property violated"""
    dfl_before = copy.deepcopy(st.dfl)
    ok = _step_inner(st, op, i, j, val)
    if ok and op != 2 and st.dfl != dfl_before:
        return False                                  # set / refresh / get must not rewrite the stored defaults
    return ok


def _step_inner(st, op, i, j, val):
    key = _key(i, j)
    parts = [_canon(p) for p in key.split(".")]
    if op == 0 or op == 1:                       # set, mapping form / keyword form
        before = copy.deepcopy(st.cfg)
        ok = _model_set(st.m_cfg, parts, val)
        try:
            if op == 0:
                qc.set({key: val}, config=st.cfg)
            else:
                kw = "__".join(parts)            # keyword form only has the '_' spelling
                qc.set(config=st.cfg, **{kw: val})
        except TypeError:
            return (not ok) and st.cfg == before
        if not ok:
            return False
        if qc.get(key, config=st.cfg) != val or qc.get(_alt(key), config=st.cfg) != val:
            return False
    elif op == 2:                                # update_defaults with a nested mapping
        raw = key.split(".")
        prev = copy.deepcopy(st.m_dfl)
        _model_merge(st.m_cfg, _nested(parts, val), "new-defaults", prev)
        _model_merge(st.m_dfl, _nested(parts, val), "new", {})
        qc.update_defaults(_nested(raw, val), config=st.cfg, defaults=st.dfl)
    elif op == 3:                                # refresh
        qc.refresh(config=st.cfg, defaults=st.dfl, path=NOPATH)
        st.m_cfg = copy.deepcopy(st.m_dfl)
    elif op == 4:                                # set a nested mapping value (replaces the entry)
        ok = _model_set(st.m_cfg, parts[:1], {"x": val})
        qc.set({key.split(".")[0]: {"x": val}}, config=st.cfg)
        if qc.get(parts[0] + ".x", config=st.cfg) != val:
            return False
    return _norm(st.cfg) == st.m_cfg


def _spelling_clash(ops):
    """update_defaults on a nested key whose spelling differs from the one already stored is
    outside the claim (the code documents only consistent spellings for defaults)."""
    seen = {}
    for op, i, j in ops:
        for depth, seg in enumerate(_key(i, j).split(".")):
            c = (depth, _canon(seg))
            if c in seen and seen[c] != seg and any(o == 2 for o, _, _ in ops):
                return True
            seen.setdefault(c, seg)
    return False


def seq2(o1: int, i1: int, j1: int, v1: int, o2: int, i2: int, j2: int, v2: int) -> bool:
    """
    pre: 0 <= o1 <= 4 and 0 <= o2 <= 4 and _fix("o1", o1) and _fix("o2", o2)
    pre: 0 <= i1 < 4 and 0 <= j1 < 4 and 0 <= i2 < 4 and 0 <= j2 < 4
    post: __return__ == True
    """
    if _spelling_clash([(o1, i1, j1), (o2, i2, j2)]):
        return True
    st = _State()
    return _step(st, o1, i1, j1, v1) and _step(st, o2, i2, j2, v2)


def seq2__reach(o1: int, i1: int, j1: int, v1: int, o2: int, i2: int, j2: int, v2: int) -> bool:
    """
    pre: 0 <= o1 <= 4 and 0 <= o2 <= 4 and _fix("o1", o1) and _fix("o2", o2)
    pre: 0 <= i1 < 4 and 0 <= j1 < 4 and 0 <= i2 < 4 and 0 <= j2 < 4
    post: __return__ == False
    """
    if _spelling_clash([(o1, i1, j1), (o2, i2, j2)]):
        return False
    st = _State()
    return _step(st, o1, i1, j1, v1) and _step(st, o2, i2, j2, v2)


def seq3(o1: int, i1: int, j1: int, v1: int, o2: int, i2: int, j2: int, v2: int,
         o3: int, i3: int, j3: int, v3: int) -> bool:
    """
    pre: 0 <= o1 <= 4 and 0 <= o2 <= 4 and 0 <= o3 <= 4
    pre: _fix("o1", o1) and _fix("o2", o2) and _fix("o3", o3) and _fix("i1", i1)
    pre: 0 <= i1 < 4 and 0 <= j1 < 4 and 0 <= i2 < 4 and 0 <= j2 < 4 and 0 <= i3 < 4 and 0 <= j3 < 4
    post: __return__ == True
    """
    if _spelling_clash([(o1, i1, j1), (o2, i2, j2), (o3, i3, j3)]):
        return True
    st = _State()
    return _step(st, o1, i1, j1, v1) and _step(st, o2, i2, j2, v2) and _step(st, o3, i3, j3, v3)


def defaults_refresh(i1: int, j1: int, v1: int, i2: int, j2: int, v2: int, i3: int, j3: int,
                     v3: int) -> bool:
    """update_defaults, set, update_defaults, refresh: refresh == accumulated defaults and a
    default only replaces a value that still equals the previous default.

    pre: 0 <= i1 < 4 and 0 <= j1 < 4 and 0 <= i2 < 4 and 0 <= j2 < 4 and 0 <= i3 < 4 and 0 <= j3 < 4
    pre: _fix("i1", i1) and _fix("j1", j1)
    post: __return__ == True
    """
    if _spelling_clash([(2, i1, j1), (0, i2, j2), (2, i3, j3)]):
        return True
    st = _State()
    return (_step(st, 2, i1, j1, v1) and _step(st, 0, i2, j2, v2) and _step(st, 2, i3, j3, v3)
            and _step(st, 3, 0, 0, 0))


def context_restore(i1: int, j1: int, v1: int, i2: int, j2: int, v2: int) -> bool:
    """`with set(...)` shows the new value inside and restores the previous state on exit
    (replaced keys restored, inserted keys removed).

    pre: 0 <= i1 < 4 and 0 <= j1 < 4 and 0 <= i2 < 4 and 0 <= j2 < 4
    post: __return__ == True
    """
    cfg = {}
    key1, key2 = _key(i1, j1), _key(i2, j2)
    p1 = [_canon(p) for p in key1.split(".")]
    p2 = [_canon(p) for p in key2.split(".")]
    model = {}
    _model_set(model, p1, v1)
    qc.set({key1: v1}, config=cfg)
    if not _model_set(copy.deepcopy(model), p2, v2):
        return True                               # the inner set must raise; covered by seq2
    before = copy.deepcopy(cfg)
    try:
        with qc.set({key2: v2}, config=cfg):
            if qc.get(key2, config=cfg) != v2:
                return False
    except TypeError:
        return False
    return cfg == before


def context_restore__reach(i1: int, j1: int, v1: int, i2: int, j2: int, v2: int) -> bool:
    """
    pre: 0 <= i1 < 4 and 0 <= j1 < 4 and 0 <= i2 < 4 and 0 <= j2 < 4
    post: __return__ == False
    """
    return context_restore(i1, j1, v1, i2, j2, v2)


DEEP = ["a.x.p", "a.x.q", "a.y.p", "b_c.x.p", "b-c.x.p", "a.x", "b_c.x-y.p_q"]


def _deep_nested(key, val):
    return _nested(key.split("."), val)


def deep_defaults(k1: int, v1: int, k2: int, v2: int, k3: int, v3: int, order: int) -> bool:
    """keys three levels deep: defaults, then set, then refresh restores exactly the accumulated
    defaults (the stored defaults are never rewritten through a shared sub-mapping)

    pre: 0 <= k1 < len(DEEP) and 0 <= k2 < len(DEEP) and 0 <= k3 < len(DEEP) and 0 <= order <= 1
    pre: _fix("k1", k1)
    post: __return__ == True
    """
    if len({_canon(DEEP[k].split(".")[0]): DEEP[k].split(".")[0] for k in (k1, k2, k3)}) != \
            len({DEEP[k].split(".")[0] for k in (k1, k2, k3)}):
        return True                                    # clashing spellings under update_defaults: outside
    cfg, dfl = {}, []
    m_cfg, m_dfl = {}, {}
    steps = [("d", k1, v1), ("s", k2, v2), ("d", k3, v3)] if order == 0 else [("d", k1, v1), ("d", k3, v3), ("s", k2, v2)]
    for kind, k, v in steps:
        key = DEEP[k]
        parts = [_canon(p) for p in key.split(".")]
        if kind == "d":
            prev = copy.deepcopy(m_dfl)
            _model_merge(m_cfg, _nested(parts, v), "new-defaults", prev)
            _model_merge(m_dfl, _nested(parts, v), "new", {})
            qc.update_defaults(_deep_nested(key, v), config=cfg, defaults=dfl)
        else:
            before = copy.deepcopy(dfl)
            if not _model_set(m_cfg, parts, v):
                try:
                    qc.set({key: v}, config=cfg)
                except TypeError:
                    continue
                return False
            qc.set({key: v}, config=cfg)
            if dfl != before:
                return False
            if qc.get(key, config=cfg) != v:
                return False
        if _norm(cfg) != m_cfg:
            return False
    qc.refresh(config=cfg, defaults=dfl, path=NOPATH)
    return _norm(cfg) == m_dfl


def context_multi(i1: int, j1: int, i2: int, j2: int, v0: int, v1: int, v2: int, v3: int, form: int) -> bool:
    """one `with set(...)` block that writes several entries - possibly the same entry twice, through
    the mapping and the keyword form or through both spellings - restores the state before the block

    pre: 0 <= i1 < 4 and 0 <= j1 < 4 and 0 <= i2 < 4 and 0 <= j2 < 4 and 0 <= form <= 3
    pre: _fix("form", form) and _fix("i1", i1)
    post: __return__ == True
    """
    cfg = {}
    key1, key2 = _key(i1, j1), _key(i2, j2)
    p1 = [_canon(p) for p in key1.split(".")]
    p2 = [_canon(p) for p in key2.split(".")]
    model = {}
    if form % 2:                                       # the first key exists before the block
        _model_set(model, p1, v0)
        qc.set({key1: v0}, config=cfg)
    trial = copy.deepcopy(model)
    ok = _model_set(trial, p1, v1) and _model_set(trial, p2, v2)
    if ok and form >= 2:                               # the keyword form writes the first key again
        ok = _model_set(trial, p1, v3)
    if not ok:
        return True                                    # a write through a scalar must raise: covered by seq2
    before = copy.deepcopy(cfg)
    kw = {"__".join(p1): v3} if form >= 2 else {}
    with qc.set({key1: v1, key2: v2}, config=cfg, **kw):
        # inside the block both entries read back as written, unless one path is a prefix of the
        # other (then one write replaces the other's container: only the restore is claimed)
        if not (p1 == p2 or p1[:len(p2)] == p2 or p2[:len(p1)] == p1):
            if qc.get(key2, config=cfg) != _model_get(trial, p2) or qc.get(key1, config=cfg) != _model_get(trial, p1):
                return False
    return cfg == before


BAD_DEVICES = ["cuda:9", "tpu", "gpu", "mps", "cuda", "", "CUDA:1", "cuda:x", "gpu:0", "xcpuz", "not-a-cpu-device", "cpu:x", "cpus",
               "cpu:", "cpu cpu"]


def _try_device(dev, prev_cpu):
    cfg = {"other": 1}
    if prev_cpu:
        qc.set({"device": "cpu"}, config=cfg)
        if cfg.get("device") != "cpu":
            return False
    before = copy.deepcopy(cfg)
    try:
        qc.set({"device": dev}, config=cfg)
    except (ValueError, RuntimeError, TypeError):
        return cfg == before
    return False


def bad_device(sel: int, idx: int, prev_cpu: bool) -> bool:
    """unavailable / malformed devices raise and leave the stored device unchanged (this
    sandbox has neither CUDA nor MPS; availability is part of the stated environment).
    sel == len(BAD_DEVICES): any integer index (negative, or no CUDA).

    pre: 0 <= sel <= len(BAD_DEVICES) and -6 <= idx <= 12
    post: __return__ == True
    """
    return _try_device(BAD_DEVICES[sel] if sel < len(BAD_DEVICES) else idx, prev_cpu)


def bad_device__reach(sel: int, idx: int, prev_cpu: bool) -> bool:
    """
    pre: 0 <= sel <= len(BAD_DEVICES) and -6 <= idx <= 12
    post: __return__ == False
    """
    return bad_device(sel, idx, prev_cpu)


def bad_device_str(s: str, prev_cpu: bool) -> bool:
    """any short string that is not a spelling of cpu is rejected

    pre: len(s) <= 2
    post: __return__ == True
    """
    return _try_device(s, prev_cpu)


def bad_device_cpu_like(side: int, c: str, prev_cpu: bool) -> bool:
    """a string that merely contains 'cpu' (one more character before or after it) is malformed

    pre: 0 <= side <= 1 and len(c) == 1
    pre: _fix("side", side)
    post: __return__ == True
    """
    return _try_device(c + "cpu" if side == 0 else "cpu" + c, prev_cpu)


def bad_device_cpu_like__reach(side: int, c: str, prev_cpu: bool) -> bool:
    """
    pre: 0 <= side <= 1 and len(c) == 1
    post: __return__ == False
    """
    return _try_device(c + "cpu" if side == 0 else "cpu" + c, prev_cpu)


def good_device(sel: int) -> bool:
    """cpu spellings are accepted and stored as 'cpu'

    pre: 0 <= sel < 5
    post: __return__ == True
    """
    cfg = {}
    qc.set({"device": ["cpu", "CPU", "cpu:0", "Cpu:12", "cpu:7"][sel]}, config=cfg)
    return qc.get("device", config=cfg) == "cpu"


# Replay on the real code: the harnesses use no stub, so calling them concretely is the replay.


def bad_device_cpu_index(c: str, prev_cpu: bool) -> bool:
    """'cpu:<c>' with a single character c that is not an ASCII digit is malformed

    pre: len(c) == 1 and c not in "0123456789"
    post: __return__ == True
    """
    return _try_device("cpu:" + c, prev_cpu)
