"""C20 — special values (NaN, +inf, -inf) through the real normalisation code: which configuration, which
position and which special value is used is chosen by symbolic selectors (the values themselves cannot be
solver variables of a real-arithmetic encoding)."""
import numpy as np

import quantem.core.visualization.custom_normalizations as cn

FIXED: dict = {}
INTERVALS = [("manual", dict(vmin=-1.0, vmax=2.0)), ("quantile", {}), ("centered", {}), ("centered", dict(half_range=1.5))]
STRETCHES = [dict(stretch_type="linear"), dict(stretch_type="power", power=2.0), dict(stretch_type="power", power=0.5),
             dict(stretch_type="logarithmic"), dict(stretch_type="asinh")]
SPECIALS = [np.nan, np.inf, -np.inf]
PRESETS = sorted(cn.NORMALIZATION_PRESETS)


def _pick(menu, sel):
    for k, v in enumerate(menu):
        if sel == k:
            return v
    raise IndexError(sel)


def _check(norm, data, pos, kind):
    with np.errstate(all="ignore"):
        y = norm(data.copy())
    for i in range(len(data)):
        if i == pos:
            if kind == 0:
                if not np.ma.is_masked(y[i]):
                    return False                       # a NaN must come back masked, never as a number
            elif float(y[i]) != (1.0 if kind == 1 else 0.0):
                return False
        elif np.ma.is_masked(y[i]) or not (0.0 <= float(y[i]) <= 1.0):
            return False
    return True


def special(iv: int, st: int, pos: int, kind: int) -> bool:
    """
    pre: 0 <= iv < len(INTERVALS) and 0 <= st < len(STRETCHES) and 0 <= pos < 5 and 0 <= kind < 3
    post: __return__ == True
    """
    name, kw = _pick(INTERVALS, iv)
    skw = _pick(STRETCHES, st)
    data = np.array([0.5, -0.5, 1.5, 0.25, 1.0])
    data[_pick([0, 1, 2, 3, 4], pos)] = _pick(SPECIALS, kind)
    norm = cn.CustomNormalization(interval_type=name, data=data, **kw, **skw)
    return _check(norm, data, pos, kind)


def special_preset(pr: int, pos: int, kind: int) -> bool:
    """
    pre: 0 <= pr < len(PRESETS) and 0 <= pos < 5 and 0 <= kind < 3
    post: __return__ == True
    """
    cfg = cn._resolve_normalization(_pick(PRESETS, pr))
    data = np.array([0.5, -0.5, 1.5, 0.25, 1.0])
    data[_pick([0, 1, 2, 3, 4], pos)] = _pick(SPECIALS, kind)
    norm = cn.CustomNormalization(data=data, **cfg.__dict__)
    return _check(norm, data, pos, kind)


def special__reach(iv: int, st: int, pos: int, kind: int) -> bool:
    """
    pre: 0 <= iv < len(INTERVALS) and 0 <= st < len(STRETCHES) and 0 <= pos < 5 and 0 <= kind < 3
    post: __return__ == False
    """
    return special(iv, st, pos, kind)


# ---------------------------------------------------------------------------------- integer dtypes
INT_DTYPES = [np.uint8, np.int8, np.uint16, np.int16, np.int32, np.int64]


def _fix(name, v):
    return v == FIXED[name] if name in FIXED else True


def _int_case(dt, lim, a, b, st, with_data):
    dtype = _pick(INT_DTYPES, dt)
    info = np.iinfo(dtype)
    lo, hi = int(info.min), int(info.max)
    span = hi - lo
    menu = [lo, lo + span // 5, lo + span // 2, hi - span // 5, hi]                  # extremes and interior values of the dtype
    x = sorted([_pick(menu, a), _pick(menu, b), lo + span // 3])
    data = np.array(x, dtype=dtype)
    vmin, vmax = _pick([(lo + span // 4, hi - span // 4), (lo + span // 3 + 1, hi), (lo, lo + span // 2), (lo + 1, hi - 1)], lim)
    skw = _pick([dict(stretch_type="linear"), dict(stretch_type="power", power=2.0)], st)
    kw = dict(data=data) if with_data else {}
    norm = cn.CustomNormalization(interval_type="manual", vmin=vmin, vmax=vmax, **kw, **skw)      # limits are Python ints
    with np.errstate(all="ignore"):
        y = np.asarray(norm(data.copy()), dtype=float)
        ref = np.asarray(norm(data.astype(np.float64)), dtype=float)
    if not all(0.0 <= v <= 1.0 for v in y):
        return False
    if not all(y[i] <= y[i + 1] for i in range(len(y) - 1)):
        return False                                   # non-decreasing in the data value
    if not np.allclose(y, ref, atol=1e-9):
        return False                                   # an integer array is normalised like the same numbers as floats
    return bool((data == np.array(x, dtype=dtype)).all())


def int_dtype(dt: int, lim: int, a: int, b: int, st: int, with_data: bool) -> bool:
    """integer-typed data with Python-int limits: range, monotonicity, agreement with the float64 computation, input untouched

    pre: 0 <= dt < len(INT_DTYPES) and 0 <= lim < 4 and 0 <= a < 5 and 0 <= b < 5 and 0 <= st < 2
    pre: _fix("dt", dt)
    post: __return__ == True
    """
    return _int_case(dt, lim, a, b, st, with_data)


def int_dtype__reach(dt: int, lim: int, a: int, b: int, st: int, with_data: bool) -> bool:
    """
    pre: 0 <= dt < len(INT_DTYPES) and 0 <= lim < 4 and 0 <= a < 5 and 0 <= b < 5 and 0 <= st < 2
    post: __return__ == False
    """
    return _int_case(dt, lim, a, b, st, with_data)


def _int_centered_case(dt, c, a, b, st, with_data):
    """centred interval on integer-typed data with a Python-int centre (limits are derived from the data)"""
    dtype = _pick(INT_DTYPES, dt)
    info = np.iinfo(dtype)
    lo, hi = int(info.min), int(info.max)
    span = hi - lo
    menu = [lo, lo + span // 5, lo + span // 2, hi - span // 5, hi]
    x = sorted([_pick(menu, a), _pick(menu, b), lo + span // 3])
    data = np.array(x, dtype=dtype)
    vcenter = _pick([lo + span // 2 + 1, lo + span // 4, hi - span // 8, 0], c)
    skw = _pick([dict(stretch_type="linear"), dict(stretch_type="power", power=2.0)], st)
    kw = dict(data=data) if with_data else {}
    norm = cn.CustomNormalization(interval_type="centered", vcenter=vcenter, **kw, **skw)
    ref_norm = cn.CustomNormalization(interval_type="centered", vcenter=vcenter, **(dict(data=data.astype(np.float64)) if with_data else {}), **skw)
    with np.errstate(all="ignore"):
        y = np.asarray(norm(data.copy()), dtype=float)
        ref = np.asarray(ref_norm(data.astype(np.float64)), dtype=float)
    if not all(0.0 <= v <= 1.0 for v in y):
        return False
    if not all(y[i] <= y[i + 1] for i in range(len(y) - 1)):
        return False
    if not np.allclose(y, ref, atol=1e-9):
        return False
    return bool((data == np.array(x, dtype=dtype)).all())


def int_dtype_centered(dt: int, c: int, a: int, b: int, st: int, with_data: bool) -> bool:
    """
    pre: 0 <= dt < len(INT_DTYPES) and 0 <= c < 4 and 0 <= a < 5 and 0 <= b < 5 and 0 <= st < 2
    pre: _fix("dt", dt)
    post: __return__ == True
    """
    return _int_centered_case(dt, c, a, b, st, with_data)


def int_dtype_centered__reach(dt: int, c: int, a: int, b: int, st: int, with_data: bool) -> bool:
    """
    pre: 0 <= dt < len(INT_DTYPES) and 0 <= c < 4 and 0 <= a < 5 and 0 <= b < 5 and 0 <= st < 2
    post: __return__ == False
    """
    return _int_centered_case(dt, c, a, b, st, with_data)
