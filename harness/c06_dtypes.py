"""C06 — integer dtypes through the real Dataset.bin: which dtype, which values (extremes / interior of the dtype), which
factor and reducer are chosen by symbolic selectors; the numbers themselves are concrete (machine-integer wrap-around is not
part of the real-arithmetic encoding of engine S)."""
import numpy as np

from quantem.core.datastructures.dataset import Dataset

FIXED: dict = {}
DTYPES = [np.uint8, np.int8, np.uint16, np.int16, np.int32, np.bool_]


def _fix(name, v):
    return v == FIXED[name] if name in FIXED else True


def _pick(menu, sel):
    for k, v in enumerate(menu):
        if sel == k:
            return v
    raise IndexError(sel)


def _case(dt, a, b, f, mean, two_d):
    dtype = _pick(DTYPES, dt)
    if dtype is np.bool_:
        lo, hi = 0, 1
    else:
        lo, hi = int(np.iinfo(dtype).min), int(np.iinfo(dtype).max)
    menu = [lo, hi, hi - (hi - lo) // 3, lo + (hi - lo) // 2]
    va, vb = _pick(menu, a), _pick(menu, b)
    f = _pick([2, 3], f)
    n = 2 * f + 1                                           # one partial block is dropped
    vals = [va if (i % 2 == 0) else vb for i in range(n)]
    arr = np.array([vals, vals[::-1]] if two_d else vals, dtype=dtype)
    ds = Dataset.from_array(arr.copy(), units=["u"] * arr.ndim)
    out = ds.bin(f, axes=(arr.ndim - 1,), reducer="mean" if mean else "sum")
    ref = arr.astype(np.float64)
    nb = n // f
    ref = ref[..., : nb * f].reshape(arr.shape[:-1] + (nb, f))
    ref = ref.mean(axis=-1) if mean else ref.sum(axis=-1)
    got = np.asarray(out.array, dtype=np.float64)
    return got.shape == ref.shape and bool(np.allclose(got, ref, rtol=1e-12, atol=0)) and bool((ds.array == arr).all())


def bin_ints(dt: int, a: int, b: int, f: int, mean: bool, two_d: bool) -> bool:
    """block sums / means of integer and boolean arrays are the exact sums / means of the numbers (no wrap-around)

    pre: 0 <= dt < len(DTYPES) and 0 <= a < 4 and 0 <= b < 4 and 0 <= f < 2
    pre: _fix("dt", dt)
    post: __return__ == True
    """
    return _case(dt, a, b, f, mean, two_d)


def bin_ints__reach(dt: int, a: int, b: int, f: int, mean: bool, two_d: bool) -> bool:
    """
    pre: 0 <= dt < len(DTYPES) and 0 <= a < 4 and 0 <= b < 4 and 0 <= f < 2
    post: __return__ == False
    """
    return _case(dt, a, b, f, mean, two_d)
