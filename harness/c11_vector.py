"""C11 — CrossHair harnesses over the real quantem Vector: operation kinds, shapes, index
expressions and arguments are chosen by symbolic selectors; a list-of-rows reference model
runs alongside and the structural invariants are checked after every operation."""
import itertools

import numpy as np

from quantem.core.datastructures.vector import Vector

FIXED: dict = {}
DEBUG = False


def _fix(name, v):
    return v == FIXED[name] if name in FIXED else True


def _pick(menu, sel):
    for k, v in enumerate(menu):
        if sel == k:
            return v
    raise IndexError(sel)


SHAPES = [(2,), (3,), (2, 2), (1, 3), (3, 2), (2, 1, 2), (2, 2, 2), (1, 2, 3)]


def index_menu(n):
    """representatives of every distinct selection of range(n) by an int, a slice or a list"""
    ints = list(range(n))
    if FIXED.get("menu") == "small":
        return ints + [slice(None), slice(1, None), slice(None, None, -1), slice(0, -1)] + [[n - 1, 0]]
    slices = [slice(None), slice(0, 1), slice(1, None), slice(None, None, 2), slice(None, None, -1), slice(0, -1),
              slice(n, None)]
    lists = [[0], [n - 1, 0], list(range(n))]
    return ints + slices + lists


def resolve(ix, n):
    if isinstance(ix, slice):
        return list(range(n))[ix]
    if isinstance(ix, list):
        return list(ix)
    return [ix]


class Model:
    def __init__(self, shape, fields, units=None):
        self.shape = tuple(shape)
        self.fields = list(fields)
        self.units = list(units) if units else ["none"] * len(fields)
        self.cells = {idx: None for idx in itertools.product(*[range(s) for s in shape])}

    def copy(self):
        m = Model(self.shape, self.fields, self.units)
        m.cells = {k: (None if v is None else [list(r) for r in v]) for k, v in self.cells.items()}
        return m

    def column(self, f):
        j = self.fields.index(f)
        out = []
        for idx in itertools.product(*[range(s) for s in self.shape]):
            if self.cells[idx] is not None:
                out += [r[j] for r in self.cells[idx]]
        return out


def cell_array(base, rows, nf):
    return np.array([[base + 10 * r + c for c in range(nf)] for r in range(rows)], dtype=float).reshape(rows, nf)


def walk(data, shape):
    for idx in itertools.product(*[range(s) for s in shape]):
        ref = data
        for i in idx:
            ref = ref[i]
        yield idx, ref


def agrees(v, m):
    """structural invariants + agreement with the model"""
    if tuple(v.shape) != m.shape or list(v.fields) != m.fields or list(v.units) != m.units:
        return False
    if len(set(v.fields)) != len(v.fields) or v.num_fields != len(m.fields):
        return False
    try:
        cells = list(walk(v._data, v.shape))
    except (IndexError, TypeError):
        return False
    for idx, c in cells:
        want = m.cells[idx]
        if want is None:
            if c is not None:
                return False
            continue
        if not isinstance(c, np.ndarray) or c.ndim != 2 or c.shape[1] != len(m.fields):
            return False
        if c.shape[0] != len(want) or not np.array_equal(c, np.array(want, dtype=float).reshape(len(want), len(m.fields))):
            return False
    for f in m.fields:                       # flattened field view = row-major concatenation of the column
        got = v[f].flatten()
        want = m.column(f)
        if got.shape != (len(want),) or not np.array_equal(got, np.array(want, dtype=float)):
            return False
    return True


def populate(v, m, fill):
    """fill pattern: bit i of `fill` set -> i-th cell populated with (i % 3) rows"""
    for n, idx in enumerate(itertools.product(*[range(s) for s in m.shape])):
        if (fill >> n) & 1:
            a = cell_array(100 * (n + 1), n % 3, len(m.fields))
            v[idx if len(idx) > 1 else idx[0]] = a
            m.cells[idx] = a.tolist()


def _mod(x, n):
    """maps a selector 0 <= x < 13 onto 0..n-1 by an n-way fork (z3 is slow on symbolic %)"""
    for r in range(n - 1):
        if x * n < 13 * (r + 1):
            return r
    return n - 1


def _index_for(shape, sels):
    out = []
    for n, s in zip(shape, sels):
        menu = index_menu(n)
        if not (s < len(menu)):
            return None                               # selector beyond this axis' menu: nothing new
        out.append(_pick(menu, s))
    return out


def apply_op(v, m, op, a, b, c, step):
    """one operation on the real Vector and on the model; returns False on a violation"""
    nf = len(m.fields)
    idxs = list(itertools.product(*[range(s) for s in m.shape]))
    if op == 0:                                      # cell assignment through __setitem__
        idx = idxs[_mod(a, len(idxs))]
        arr = cell_array(1000 * step, _mod(b, 3), nf)
        v[idx if len(idx) > 1 else idx[0]] = arr
        m.cells[idx] = arr.tolist()
    elif op == 1:                                    # cell retrieval: __getitem__ and get_data
        idx = idxs[_mod(a, len(idxs))]
        got = v[idx if len(idx) > 1 else idx[0]]
        got2 = v.get_data(*idx)
        want = m.cells[idx]
        if want is None:
            return got is None and got2 is None
        return (np.array_equal(got, np.array(want).reshape(len(want), nf)) and got2 is got)
    elif op == 2:                                    # slicing / fancy retrieval -> new Vector of the addressed cells
        ix = _index_for(m.shape, (a, b, c))
        if ix is None or all(isinstance(i, int) for i in ix):
            return True
        key = tuple(ix) if len(ix) > 1 else ix[0]
        sel = [resolve(i, n) for i, n in zip(ix, m.shape)]
        if any(len(s) == 0 for s in sel):
            return True                              # empty selections: no cells addressed
        sub = v[key]
        ms = Model(tuple(len(s) for s in sel), m.fields, m.units)
        for out in itertools.product(*[range(len(s)) for s in sel]):
            ms.cells[out] = m.cells[tuple(s[o] for s, o in zip(sel, out))]
        if not isinstance(sub, Vector) or not agrees(sub, ms):
            return False
        flat = v.get_data(*ix)                       # same cells through get_data, row-major
        want = [ms.cells[o] for o in itertools.product(*[range(len(s)) for s in sel])]
        if len(want) == 1 and not isinstance(flat, list):
            flat = [flat]                            # a selection of exactly one cell comes back bare
        if not isinstance(flat, list) or len(flat) != len(want):
            return False
        for g, w in zip(flat, want):
            if (w is None) != (g is None) or (w is not None and not np.array_equal(g, np.array(w).reshape(len(w), nf))):
                return False
    elif op == 3:                                    # slice / fancy assignment from a list of arrays
        ix = _index_for(m.shape, (a, b, c))
        if ix is None or all(isinstance(i, int) for i in ix):
            return True
        sel = [resolve(i, n) for i, n in zip(ix, m.shape)]
        outs = list(itertools.product(*sel))
        if len(outs) == 0 or len(set(outs)) != len(outs):
            return True
        if len(outs) == 1 and any(isinstance(i, list) for i in ix):
            return True                              # size-1 list index in an assignment: form of the value undocumented
        vals = [cell_array(1000 * step + 100 * k, (k + 1) % 3, nf) for k in range(len(outs))]
        if step % 2:
            v[tuple(ix) if len(ix) > 1 else ix[0]] = vals
        else:
            v.set_data(vals if len(outs) > 1 else vals[0], *ix)
        for o, val in zip(outs, vals):
            m.cells[o] = val.tolist()
    elif op == 4:                                    # field arithmetic
        f = m.fields[_mod(a, nf)]
        j = m.fields.index(f)
        k = _mod(b, 5) - 2
        fv = v[f]
        cm = _mod(c, 3)
        if cm == 0:
            fv += k
            fn = lambda x: x + k  # noqa: E731
        elif cm == 1:
            fv -= k
            fn = lambda x: x - k  # noqa: E731
        else:
            fv *= k
            fn = lambda x: x * k  # noqa: E731
        for cell in m.cells.values():
            if cell is not None:
                for r in cell:
                    r[j] = fn(r[j])
    elif op == 5:                                    # set_flattened(flatten() + 1) / identity
        f = m.fields[_mod(a, nf)]
        j = m.fields.index(f)
        flat = v[f].flatten()
        if _mod(b, 2):
            before = [None if x is None else x.copy() for _, x in walk(v._data, v.shape)]
            v[f].set_flattened(flat)
            after = [x for _, x in walk(v._data, v.shape)]
            for x, y in zip(before, after):
                if (x is None) != (y is None) or (x is not None and not np.array_equal(x, y)):
                    return False
        else:
            v[f] = flat + 1
            for cell in m.cells.values():
                if cell is not None:
                    for r in cell:
                        r[j] += 1
    elif op == 6:                                    # add a field
        k = 1 + _mod(b, 3)                           # 1..3 new fields: fewer, as many as, or more than there are already
        names = ["new%d_%d" % (step, i) for i in range(k)]
        v.add_fields(names[0] if (k == 1 and _mod(a, 2)) else names)
        m.fields += names
        m.units += ["none"] * k
        for cell in m.cells.values():
            if cell is not None:
                for r in cell:
                    r.extend([0.0] * k)
    elif op == 7:                                    # remove a field
        if nf < 2:
            return True
        f = m.fields[_mod(a, nf)]
        j = m.fields.index(f)
        sp = _mod(b, 3)                              # one name as a string, as a list, or listed twice (removed once)
        v.remove_fields(f if sp == 1 else ([f] if sp == 0 else [f, f]))
        del m.fields[j]
        del m.units[j]
        for cell in m.cells.values():
            if cell is not None:
                for r in cell:
                    del r[j]
    elif op == 8:                                    # copy, then mutate the copy: the original must not move
        w = v.copy()
        if not agrees(w, m):
            return False
        mw = m.copy()
        idx = idxs[_mod(a, len(idxs))]
        arr = cell_array(7000, 1, nf)
        w[idx if len(idx) > 1 else idx[0]] = arr
        mw.cells[idx] = arr.tolist()
        wf = w[m.fields[0]]
        wf += 5
        for cell in mw.cells.values():
            if cell is not None:
                for r in cell:
                    r[0] += 5
        w.metadata["touched"] = step
        w.fields.append("x")
        w.fields.pop()
        w.units[0] = "changed"
        mw.units[0] = "changed"
        if not agrees(w, mw):
            return False
        if "touched" in v.metadata:
            return False
    elif op == 9:                                    # whole-vector flatten = row-major stack of the populated cells
        want = [r for idx in idxs if m.cells[idx] is not None for r in m.cells[idx]]
        got = v.flatten()
        if got.shape != (len(want), nf):
            return False
        if len(want) and not np.array_equal(got, np.array(want, dtype=float)):
            return False
    return agrees(v, m)


N_OPS = 10


def history(shape_sel: int, nf: int, fill: int, o1: int, a1: int, b1: int, c1: int, o2: int, a2: int, b2: int,
            c2: int, o3: int, a3: int, b3: int, c3: int) -> bool:
    """create from shape, populate a subset of cells, then three operations

    pre: 0 <= shape_sel < len(SHAPES) and 1 <= nf <= 3 and 0 <= fill < 64
    pre: 0 <= o1 <= N_OPS and 0 <= o2 <= N_OPS and 0 <= o3 <= N_OPS
    pre: 0 <= a1 < 13 and 0 <= b1 < 13 and 0 <= c1 < 13 and 0 <= a2 < 13 and 0 <= b2 < 13 and 0 <= c2 < 13
    pre: 0 <= a3 < 13 and 0 <= b3 < 13 and 0 <= c3 < 13
    pre: _fix("shape_sel", shape_sel) and _fix("nf", nf) and _fix("fill", fill) and _fix("o1", o1) and _fix("o2", o2) and _fix("o3", o3)
    pre: _fix("a1", a1) and _fix("b1", b1) and _fix("c1", c1) and _fix("a2", a2) and _fix("b2", b2) and _fix("c2", c2)
    pre: _fix("a3", a3) and _fix("b3", b3) and _fix("c3", c3)
    post: __return__ == True
    """
    return _history(shape_sel, nf, fill, [(o1, a1, b1, c1), (o2, a2, b2, c2), (o3, a3, b3, c3)])


def _history(shape_sel, nf, fill, ops):
    shape = _pick(SHAPES, shape_sel)
    fields = ["f%d" % i for i in range(nf)]
    v = Vector.from_shape(shape=shape, fields=fields)
    m = Model(shape, fields)
    populate(v, m, fill)
    if not agrees(v, m):
        return False
    for step, (op, a, b, c) in enumerate(ops, 1):
        if op == N_OPS:
            continue                                  # no-op (shorter history)
        if not apply_op(v, m, op, a, b, c, step):
            if DEBUG:
                print("FAILED at step", step, "op", op, (a, b, c), "shape", shape, "\nreal:", v._data, v.fields,
                      "\nmodel:", m.cells, m.fields)
            return False
    return True


def history__reach(shape_sel: int, nf: int, fill: int, o1: int, a1: int, b1: int, c1: int) -> bool:
    """
    pre: 0 <= shape_sel < len(SHAPES) and 1 <= nf <= 3 and 0 <= fill < 64
    pre: 0 <= o1 < N_OPS and 0 <= a1 < 13 and 0 <= b1 < 13 and 0 <= c1 < 13
    post: __return__ == False
    """
    return _history(shape_sel, nf, fill, [(o1, a1, b1, c1)])


def independent(shape_sel: int, nf: int, which: int) -> bool:
    """independently created vectors share no mutable state (data, fields, units, metadata)

    pre: 0 <= shape_sel < len(SHAPES) and 1 <= nf <= 3 and 0 <= which <= 3
    post: __return__ == True
    """
    shape = _pick(SHAPES, shape_sel)
    v1 = Vector.from_shape(shape=shape, num_fields=nf)
    v2 = Vector.from_shape(shape=shape, num_fields=nf) if which % 2 == 0 else Vector.from_data(
        [np.zeros((1, nf)), np.ones((2, nf))])
    before = (dict(v2.metadata), list(v2.fields), list(v2.units))
    idx = tuple(0 for _ in shape)
    v1[idx if len(idx) > 1 else 0] = np.ones((1, nf))
    v1.metadata["k"] = 1
    v1.fields.append("zz")
    v1.units.append("u")
    return (dict(v2.metadata), list(v2.fields), list(v2.units)) == before and v1.metadata is not v2.metadata


def from_data_roundtrip(n: int, nf: int, rows: int, as_lists: bool) -> bool:
    """from_data builds the 1-D vector whose cells are the given arrays (incl. zero-row cells)

    pre: 1 <= n <= 3 and 1 <= nf <= 3 and 0 <= rows < 27
    post: __return__ == True
    """
    counts = [(rows // 3**i) % 3 for i in range(n)]
    arrays = [cell_array(100 * (i + 1), counts[i], nf) for i in range(n)]
    data = [a.tolist() if (as_lists and len(a)) else a for a in arrays]
    v = Vector.from_data(data, fields=["f%d" % i for i in range(nf)])
    m = Model((n,), ["f%d" % i for i in range(nf)])
    for i, a in enumerate(arrays):
        m.cells[(i,)] = a.tolist()
    return agrees(v, m)


# ---------------------------------------------------------------------------------- cells of different dtypes
CELL_DTYPES = [np.int64, np.int32, np.bool_, np.float32, np.float64]
FRACTIONS = [0.25, -1.5, 7.5, 3.0]


def _mixed_case(d0, d1, f0, f1, rows0, rows1):
    """two populated cells whose arrays have different dtypes (the narrower one first or second): a field's flattened view is
    the row-major concatenation of that column over the cells with every value intact, and writing it back restores the data"""
    dt0, dt1 = _pick(CELL_DTYPES, d0), _pick(CELL_DTYPES, d1)
    x0, x1 = _pick(FRACTIONS, f0), _pick(FRACTIONS, f1)

    def cell(dt, rows, base, frac):
        vals = [[base + r, (frac if np.dtype(dt).kind == "f" else 1) + r] for r in range(rows)]
        return np.array(vals, dtype=dt).reshape(rows, 2)
    c0, c1 = cell(dt0, rows0, 1, x0), cell(dt1, rows1, 5, x1)
    v = Vector.from_shape((2,), fields=["x", "y"])
    v[0] = c0.copy()
    v[1] = c1.copy()
    for j, name in enumerate(("x", "y")):
        want = [float(t) for t in c0[:, j]] + [float(t) for t in c1[:, j]]
        got = v[name].flatten()
        if len(got) != len(want) or any(float(g) != w for g, w in zip(got, want)):
            return False
        v[name].set_flattened(got)
        again = v[name].flatten()
        if len(again) != len(want) or any(float(g) != w for g, w in zip(again, want)):
            return False
    return bool(np.array_equal(np.asarray(v[0], dtype=float), c0.astype(float)) and np.array_equal(np.asarray(v[1], dtype=float), c1.astype(float)))


def mixed_dtypes(d0: int, d1: int, f0: int, f1: int, rows0: int, rows1: int) -> bool:
    """
    pre: 0 <= d0 < len(CELL_DTYPES) and 0 <= d1 < len(CELL_DTYPES) and 0 <= f0 < 4 and 0 <= f1 < 4 and 1 <= rows0 <= 2 and 1 <= rows1 <= 2
    pre: _fix("d0", d0)
    post: __return__ == True
    """
    return _mixed_case(d0, d1, f0, f1, rows0, rows1)


def mixed_dtypes__reach(d0: int, d1: int, f0: int, f1: int, rows0: int, rows1: int) -> bool:
    """
    pre: 0 <= d0 < len(CELL_DTYPES) and 0 <= d1 < len(CELL_DTYPES) and 0 <= f0 < 4 and 0 <= f1 < 4 and 1 <= rows0 <= 2 and 1 <= rows1 <= 2
    post: __return__ == False
    """
    return _mixed_case(d0, d1, f0, f1, rows0, rows1)
