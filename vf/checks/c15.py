"""C15 drift-correction initial geometry — engine S: the real DriftCorrection.preprocess knot
construction and DriftInterpolator.transform_rows/transform_coordinates on a symbolic scan direction."""
import math
import types

import numpy as np

import quantem.core.utils.imaging_utils as iu
import quantem.imaging.drift as drift

from ..sym import core
from ..sym.claims import Rel, decide_many, register
from ..sym.npx import SymArray, lift

TECHNIQUE = ("term-valued symbolic execution of the real NumPy code of DriftCorrection.preprocess (knot construction), "
             "DriftInterpolator.transform_rows/transform_coordinates and bilinear_kde's splat on a symbolic scan direction "
             "(cos/sin atom pair) and symbolic sample coordinates; geometry and unit-weight identities decided by z3 (QF_NRA); the real "
             "DriftCorrection.align_translation + cross_correlation_shift on identical images with a symbolic power spectrum (fixed point)")
PID = "C15"


def _interp1d_stub(basis, y, kind="linear", fill_value=None, assume_sorted=True, **kw):
    """scipy.interpolate.interp1d for n = order + 1 sorted knots: the unique interpolating polynomial"""
    basis = [float(b) for b in basis]
    need = {"linear": 2, "quadratic": 3, "cubic": 4}[kind]
    if len(basis) != need:
        raise core.Unsupported(f"interp1d stub: kind={kind} with {len(basis)} knots")

    def f(u):
        u = np.asarray(u, dtype=float)
        out = None
        for k in range(len(basis)):
            L = np.ones_like(u)
            for m in range(len(basis)):
                if m != k:
                    L = L * (u - basis[m]) / (basis[k] - basis[m])
            term = L * y[k]
            out = term if out is None else out + term
        return out
    return f


class _NoWarp(drift.DriftInterpolator):
    def warp_image(self, image, knots, **kw):
        return np.zeros(self.output_shape), np.zeros(self.output_shape)


def _preprocess(I, shape, knots, pad_fraction, theta_deg):
    """the real DriftCorrection.preprocess up to the knots / interpolators (warping stubbed out)"""
    dc = drift.DriftCorrection.__new__(drift.DriftCorrection)
    img = types.SimpleNamespace(shape=shape, array=np.zeros(shape))
    dc._images = [img, img]
    deg = np.array([theta_deg, theta_deg], dtype=object)
    dc._scan_direction_degrees = lift(deg) if I.mode == "sym" else deg.astype(float)
    dc.calculate_error = lambda *a, **k: None
    old = (drift.DriftInterpolator, drift.validate_pad_value, drift.Dataset3d)
    drift.DriftInterpolator = _NoWarp
    drift.validate_pad_value = lambda v, images: [0.0] * len(images)
    drift.Dataset3d = types.SimpleNamespace(from_shape=lambda s: types.SimpleNamespace(array=np.zeros(s)))
    try:
        dc.preprocess(pad_fraction=pad_fraction, pad_value=0.0, kde_sigma=0.5, number_knots=knots)
    finally:
        drift.DriftInterpolator, drift.validate_pad_value, drift.Dataset3d = old
    return dc


def geometry_claim(shape, knots, pad_fraction):
    H, W = shape

    def claim(I):
        old_interp = drift.interp1d
        if I.mode == "sym":
            drift.interp1d = _interp1d_stub
        try:
            with I.patch(drift):
                th = I.angle("theta_deg", math.pi / 180.0)
                dc = _preprocess(I, shape, knots, pad_fraction, th)
                interp = dc.interpolator[0]
                xa, ya = drift.DriftInterpolator.transform_coordinates(interp, dc.knots[0])
                fast, slow = dc.scan_fast[0], dc.scan_slow[0]
                cx, cy = (dc.shape[1] - 1) / 2, (dc.shape[2] - 1) / 2
                want_x = np.empty(shape, dtype=object)
                want_y = np.empty(shape, dtype=object)
                for r in range(H):
                    for c in range(W):
                        want_x[r, c] = cx + (c - (W - 1) / 2) * fast[0] + (r - (H - 1) / 2) * slow[0]
                        want_y[r, c] = cy + (c - (W - 1) / 2) * fast[1] + (r - (H - 1) / 2) * slow[1]
                if I.mode != "sym":
                    want_x, want_y = want_x.astype(float), want_y.astype(float)
                # fast / slow are the rotation of the unit vectors by the scan direction
                rot = [Rel("scan_vectors_are_a_rotation", [fast[0] * fast[0] + fast[1] * fast[1], slow[0] * slow[0] + slow[1] * slow[1],
                                                            fast[0] * slow[0] + fast[1] * slow[1]], [1.0, 1.0, 0.0], ntol=1e-9)]
                return rot + [Rel("pixel_rc_maps_to_centre_plus_rotated_offset", [xa, ya], [want_x, want_y], tol=1e-9, ntol=1e-7)]
        finally:
            drift.interp1d = old_interp
    return claim


def weight_claim(shape, out_shape, margin=0.0):
    """margin > 0: sample positions up to `margin` pixels outside the canvas (a rotated image with little padding)"""
    def claim(I):
        over = dict(ravel_multi_index=lambda inds, dims, mode=None: np.zeros(len(np.asarray(inds[0]).reshape(-1)), dtype=int),
                    bincount=lambda idx, weights=None, minlength=0: _scatter_total(weights, minlength))
        old_gf = iu.gaussian_filter
        if I.mode == "sym":
            iu.gaussian_filter = lambda a, sigma: a          # any sum-preserving linear operator
            core.ctx().symbolic_int_arrays = True
        try:
            with I.patch(iu, overrides=over):
                xa = I.array("xa", shape, lo=0 - margin, hi=out_shape[0] - 1 + margin)
                ya = I.array("ya", shape, lo=0 - margin, hi=out_shape[1] - 1 + margin)
                vals = I.array("v", shape, lo=0, hi=1)
                img, w = iu.bilinear_kde(xa, ya, vals, out_shape, 0.5, pad_value=0.0, return_pix_count=True)
                n = shape[0] * shape[1]
                return [Rel("weight_map_sums_to_number_of_pixels", np.asarray(w).sum(), float(n), ntol=2e-3)]
        finally:
            iu.gaussian_filter = old_gf
    return claim


class _FFTStub:
    """np.fft of the drift module: fft2 of the (identical) warped images answers their common spectrum"""

    def __init__(self, inner, spectrum):
        self._inner, self._spectrum = inner, spectrum

    def __getattr__(self, name):
        return getattr(self._inner, name)

    def fft2(self, a, *args, **kw):
        return self._spectrum


def fixed_point_claim(n_images, up, shape=(4, 4), min_shift=None):
    """identical warped images: the real align_translation measures zero relative shifts and leaves the knots where they are.
    The common spectrum is sqrt(q_k) with symbolic q_k (the estimator only sees the products |F_k|^2 = q_k)."""
    def claim(I):
        q = I.array("q", shape, lo=0.01, hi=1.0)
        rows, nk = 3, 2
        knots0 = [np.stack([np.linspace(0.5, 2.5, rows)[:, None] + 0.25 * np.arange(nk)[None, :] + i,
                            np.linspace(1.0, 2.0, rows)[:, None] - 0.5 * np.arange(nk)[None, :]]) for i in range(n_images)]
        dc = drift.DriftCorrection.__new__(drift.DriftCorrection)
        dc.shape = (n_images,) + tuple(shape)
        warped_calls = []

        class _Interp:
            def warp_image(self, image, knots, **kw):
                warped_calls.append(knots)
                return np.zeros(shape), np.zeros(shape)
        dc.interpolator = [_Interp() for _ in range(n_images)]
        dc._images = [types.SimpleNamespace(array=np.zeros((3, 3)), shape=(3, 3)) for _ in range(n_images)]
        dc.weights_warped = types.SimpleNamespace(array=[np.zeros(shape) for _ in range(n_images)])
        with I.patch(iu):
            with I.patch(drift) as npd:
                if I.mode == "sym":
                    r = np.empty(shape, dtype=object)
                    for i in np.ndindex(*shape):
                        r[i] = core.to_S(q[i]).sqrt()
                    spectrum = r.view(SymArray)
                    npd.fft = _FFTStub(npd.fft, spectrum)
                    dc.knots = [lift(k.copy()) for k in knots0]
                    common = np.zeros(shape)
                else:
                    common = np.fft.ifft2(np.sqrt(np.asarray(q, dtype=float)))          # fft2(common) = sqrt(q)
                    dc.knots = [k.copy() for k in knots0]
                dc.images_warped = types.SimpleNamespace(array=[common for _ in range(n_images)])
                drift.DriftCorrection.align_translation(dc, upsample_factor=up, min_image_shift=min_shift, show_merged=False, show_images=False)
        rels = [Rel("identical_images_do_not_move_the_knots", [dc.knots[i] for i in range(n_images)], [knots0[i] for i in range(n_images)],
                    tol=1e-9, ntol=1e-6)]
        if len(warped_calls) != n_images:
            raise core.Unsupported("align_translation did not regenerate every image")
        return rels
    return claim


def _scatter_total(weights, minlength):
    """np.bincount contract used here: a scatter-add, so the total of the output equals the total of the weights"""
    out = lift(np.zeros(minlength))
    out[0] = np.asarray(weights).sum()
    return out


def cases(tier):
    out = []
    L = dict(logic="QF_NRA")
    for shape in ((3, 3), (3, 5), (4, 2), (5, 4)):
        for knots in (1, 2, 3, 4):
            for pad in ((0.25,) if tier == "quick" and shape != (3, 5) else (0.0, 0.25, 0.5)):
                out.append((f"geometry[{shape};knots={knots};pad={pad}]", geometry_claim(shape, knots, pad), L))
    for shape, osh in (((2, 2), (4, 4)), ((3, 2), (5, 4)), ((1, 4), (4, 6))):
        out.append((f"unit_weight[{shape}->{osh}]", weight_claim(shape, osh), L))
    out.append(("unit_weight_outside_canvas[(1, 1)->(3, 3);margin 1.5]", weight_claim((1, 1), (3, 3), margin=1.5), L))
    out.append(("unit_weight_outside_canvas[(1, 2)->(2, 3);margin 1]", weight_claim((1, 2), (2, 3), margin=1.0), L))
    for n_images in (2, 3):
        for up in ((1, 3, 8) if tier == "quick" else (1, 2, 3, 4, 7, 8)):
            out.append((f"fixed_point[{n_images} images;up={up}]", fixed_point_claim(n_images, up), dict(logic=None, max_paths=8)))
    return out


for _n, _c, _ in cases("thorough"):
    register(PID, _n, _c)


def run(check, tier):
    check.add_functions("DriftCorrection.preprocess (scan vectors, canvas shape, knot construction)", "DriftInterpolator.__init__",
                        "DriftInterpolator.transform_rows", "DriftInterpolator.transform_coordinates", "imaging_utils.bilinear_kde (bilinear splat)",
                        "DriftCorrection.align_translation", "imaging_utils.cross_correlation_shift / dft_upsample (fft_input, fft_output, return_shifted_image)")
    check.bounds.update(shapes="3x3, 3x5, 4x2, 5x4", knots="1..4", pad_fraction="0, 0.25, 0.5", symbolic="scan direction (any angle), "
                        "sample coordinates and values for the splat; fixed point: 4x4 canvas, 2 and 3 identical images, upsampling 1, 3, 8 (thorough: 1, 2, 3, 4, 7, 8), "
                        "all 16 power-spectrum values q_k in [0.01, 1]")
    check.stubs += ["scipy.interpolate.interp1d(kind, n = order+1 knots) -> the unique interpolating polynomial (Lagrange form)",
                    "scipy.ndimage.gaussian_filter -> a sum-preserving linear operator (identity)",
                    "np.bincount / ravel_multi_index -> scatter-add that preserves the total of the weights",
                    "DriftInterpolator.warp_image / Dataset3d.from_shape / calculate_error are cut out of preprocess (not part of the geometry)",
                    "fixed point: np.fft.fft2 of the identical warped images -> their common spectrum sqrt(q_k) (real, positive; the estimator only "
                    "uses the products |F_k|^2 = q_k); warp_image after the alignment -> recorded, returns zeros"]
    check.assumptions += ["real arithmetic"]
    check.outside += ["fixed point for spectra with zeros or non-trivial phases on a canvas other than 4x4, max_image_shift smaller than the canvas",
                      "KDE width effects, merged image, affine / non-rigid alignment"]
    decide_many(check, [(n, c, dict(o, key=n.split("[")[0])) for n, c, o in cases(tier)],
                timeout_s=90 if tier == "quick" else 400, validate=1 if tier == "quick" else 3, hard_timeout_s=240 if tier == "quick" else 900)
