"""C06 binning / Fourier resampling / pad-crop conservation laws — engine S (term-valued execution of
the real Dataset.bin / fourier_resample / pad / crop on symbolic array contents and calibration)."""
import itertools
import random

import numpy as np

import quantem.core.datastructures.dataset as dsmod
import quantem.core.utils.validators as valmod
from quantem.core.datastructures.dataset import Dataset

from ..common import seed
from ..sym.claims import Rel, decide, decide_many, register
from ..sym.npx import dft, is_sym

TECHNIQUE = ("term-valued (symbolic) execution of the real NumPy code of Dataset.bin/fourier_resample/pad/crop on arrays "
             "of z3 real terms (explicit DFT model), conservation identities decided by z3 (QF_LRA/NRA) for all "
             "array contents, origins and samplings; counterexamples replayed on real NumPy")

PID = "C06"


def _over():
    return dict(issubdtype=lambda d, t: True if d == object else np.issubdtype(d, t))


def _mk(I, shape, kind="real"):
    data = I.array("x", shape, kind)
    nd = len(shape)
    origin = I.array("o", (nd,), lo=-5, hi=5)
    sampling = I.array("s", (nd,), lo=0.1, hi=4)
    ds = Dataset.from_array(data, origin=origin, sampling=sampling, units=["u"] * nd)
    return ds, data, origin, sampling


def _blocks(data, shape, axis_to_factor, reducer):
    """independent oracle: explicit loops over the blocks"""
    out_shape = tuple(shape[a] // axis_to_factor.get(a, 1) for a in range(len(shape)))
    out = np.empty(out_shape, dtype=object)
    vol = 1
    for f in axis_to_factor.values():
        vol *= f
    for blk in np.ndindex(*out_shape):
        acc = 0
        ranges = [range(b * axis_to_factor.get(a, 1), (b + 1) * axis_to_factor.get(a, 1)) for a, b in enumerate(blk)]
        for idx in itertools.product(*ranges):
            acc = acc + data[idx]
        out[blk] = acc / vol if reducer == "mean" else acc
    return out


def bin_claim(shape, axes, factors, reducer):
    call_axes = tuple(axes)                              # as the caller spells them (negative = counted from the end)
    axes = tuple(a % len(shape) for a in axes)
    a2f = dict(zip(axes, factors))

    def claim(I):
        with I.patch(dsmod, valmod, overrides=_over()):
            ds, data, origin, sampling = _mk(I, shape)
            out = ds.bin(tuple(factors), axes=call_axes, reducer=reducer)
            twin = ds.copy()
            twin.bin(tuple(factors), axes=call_axes, reducer=reducer, modify_in_place=True)
            want = _blocks(data, shape, a2f, reducer)
            rels = [Rel("block_reduction", out.array, want),
                    Rel("inplace_equals_copy", [twin.array, twin.sampling, twin.origin], [out.array, out.sampling, out.origin]),
                    Rel("source_untouched", [ds.array, ds.sampling, ds.origin], [data, sampling, origin])]
            rels.append(Rel("sampling_times_factor", [out.sampling[a] for a in range(len(shape))],
                            [sampling[a] * a2f.get(a, 1) for a in range(len(shape))]))
            # origin = mean coordinate of the first block; every block centre keeps its physical coordinate
            first = [sum(origin[a] + i * sampling[a] for i in range(a2f.get(a, 1))) / a2f.get(a, 1) for a in range(len(shape))]
            rels.append(Rel("origin_first_block_mean", [out.origin[a] for a in range(len(shape))], first))
            for a in axes:
                f = a2f[a]
                for k in range(shape[a] // f):
                    centre = sum(origin[a] + (k * f + i) * sampling[a] for i in range(f)) / f
                    rels.append(Rel("block_centres", out.origin[a] + k * out.sampling[a], centre))
            if reducer == "sum":
                covered = tuple(slice(0, (shape[a] // a2f.get(a, 1)) * a2f.get(a, 1)) for a in range(len(shape)))
                rels.append(Rel("counts_preserved", out.array.sum(), data[covered].sum()))
            rels.append(Rel("shape", [float(s) for s in out.array.shape],
                            [float(shape[a] // a2f.get(a, 1)) for a in range(len(shape))]))
            return rels
    return claim


def _nyquist_zero(I, data, axes):
    """precondition: no Nyquist-frequency content on every even axis"""
    if I.mode != "sym":
        # numeric mode: project the content out
        F = np.fft.fftn(data, axes=axes)
        for a in axes:
            n = data.shape[a]
            if n % 2 == 0:
                sl = [slice(None)] * data.ndim
                sl[a] = n // 2
                F[tuple(sl)] = 0
        r = np.fft.ifftn(F, axes=axes)
        r = r.real if np.isrealobj(data) else r
        I.set_array("x", r)
        return r
    F = data
    for a in axes:
        F = dft(F, a)
    for a in axes:
        n = data.shape[a]
        if n % 2 == 0:
            sl = [slice(None)] * data.ndim
            sl[a] = n // 2
            for z in np.asarray(F[tuple(sl)]).reshape(-1):
                I.assume(z.real == 0)
                if not z.is_real:
                    I.assume(z.imag == 0)
    return data


def resample_claim(shape, axes, out_lens, kind="real", updown=False, use_factors=False, factors=None):
    """factors: explicit resampling factors whose product with the axis length is not an integer (the output length is whatever
    the code rounds to; extent and centre must still be preserved with that length)"""
    call_axes = tuple(axes)
    axes = tuple(a % len(shape) for a in axes)

    def claim(I):
        nonlocal out_lens
        with I.patch(dsmod, valmod, overrides=_over()):
            ds, data, origin, sampling = _mk(I, shape, kind)
            if updown:
                data2 = _nyquist_zero(I, data, axes)
                if I.mode != "sym":
                    ds = Dataset.from_array(data2, origin=origin, sampling=sampling, units=["u"] * len(shape))
                    data = data2
                up = ds.fourier_resample(out_shape=tuple(out_lens), axes=tuple(axes))
                back = up.fourier_resample(out_shape=tuple(shape[a] for a in axes), axes=tuple(axes))
                return [Rel("up_then_down_identity", back.array, data, tol=1e-9),
                        Rel("up_then_down_calibration", [back.sampling, back.origin], [sampling, origin], tol=1e-9)]
            if factors is not None:
                out = ds.fourier_resample(factors=tuple(factors), axes=call_axes)
                out_lens = tuple(out.array.shape[a] for a in axes)
            elif use_factors:
                out = ds.fourier_resample(factors=tuple(o / shape[a] for a, o in zip(axes, out_lens)), axes=tuple(axes))
            else:
                out = ds.fourier_resample(out_shape=tuple(out_lens), axes=call_axes)
            twin = ds.copy()
            twin.fourier_resample(out_shape=tuple(out_lens), axes=call_axes, modify_in_place=True)
            n_in = int(np.prod(shape))
            n_out = int(np.prod(out.array.shape))
            rels = [Rel("mean_preserved", out.array.sum() / n_out, data.sum() / n_in, tol=1e-9),
                    Rel("inplace_equals_copy", [twin.array, twin.sampling, twin.origin], [out.array, out.sampling, out.origin]),
                    Rel("source_untouched", [ds.array, ds.sampling, ds.origin], [data, sampling, origin])]
            a2o = dict(zip(axes, out_lens))
            for a in range(len(shape)):
                no = a2o.get(a, shape[a])
                rels.append(Rel("extent_preserved", out.sampling[a] * no, sampling[a] * shape[a], tol=1e-9))
                rels.append(Rel("centre_preserved", out.origin[a] + out.sampling[a] * (no - 1) / 2,
                                origin[a] + sampling[a] * (shape[a] - 1) / 2, tol=1e-9))
            if tuple(out.array.shape) == tuple(shape):
                rels.append(Rel("identity_when_shape_unchanged", out.array, data, tol=1e-9))
            if kind == "real":
                rels.append(Rel("real_in_real_out", [z.imag if is_sym(z) else complex(z).imag for z in np.asarray(out.array).reshape(-1)], 0.0))
            return rels
    return claim


def linear_claim(shape, axes, out_lens):
    def claim(I):
        with I.patch(dsmod, valmod, overrides=_over()):
            x = I.array("x", shape)
            y = I.array("y", shape)
            lam = I.real("lam", -3, 3)
            f = lambda a: Dataset.from_array(a, units=["u"] * len(shape)).fourier_resample(  # noqa: E731
                out_shape=tuple(out_lens), axes=tuple(axes)).array
            return [Rel("additive", f(x + y), f(x) + f(y), tol=1e-9),
                    Rel("homogeneous", f(x * lam), f(x) * lam, tol=1e-9)]
    return claim


def padcrop_claim(shape, out_shape):
    def claim(I):
        with I.patch(dsmod, valmod, overrides=_over()):
            ds, data, origin, sampling = _mk(I, shape)
            padded = ds.pad(output_shape=tuple(out_shape))
            widths = []
            for a in range(len(shape)):
                d = out_shape[a] - shape[a]
                before, after = max(0, d // 2), max(0, d - d // 2)
                widths.append((before, -after if after else 0))
            back = padded.crop(tuple(widths))
            total = padded.array.sum()
            return [Rel("pad_then_crop_identity", back.array, data),
                    Rel("padded_shape", [float(s) for s in padded.array.shape], [float(max(o, s)) for o, s in zip(out_shape, shape)]),
                    Rel("pad_adds_zeros", total, data.sum()),
                    Rel("source_untouched", ds.array, data)]
    return claim


def cases(tier):
    rnd = random.Random(seed())
    quick = tier == "quick"
    out = []
    # --- binning
    bins = [((5,), (0,), (2,), "sum"), ((7,), (0,), (3,), "mean"), ((4,), (0,), (4,), "sum"), ((3,), (0,), (1,), "sum"),
            ((5, 4), (0, 1), (2, 3), "mean"), ((5, 4), (1,), (2,), "sum"), ((3, 4), (0, 1), (2, 2), "sum"),
            ((2, 3, 4), (0, 2), (2, 3), "sum"), ((2, 3, 4), (1,), (2,), "mean"), ((6,), (0,), (4,), "sum"),
            # axes counted from the end, and axes given in descending order with unequal factors
            ((4, 6), (-1,), (2,), "sum"), ((2, 3, 4), (-1, 0), (2, 2), "mean"), ((4, 6), (1, 0), (3, 2), "sum"),
            ((2, 3, 4), (2, 0), (3, 2), "sum")]
    extra = []
    for n in range(1, 8):
        for f in range(1, 5):
            if f <= n:
                extra.append(((n,), (0,), (f,), rnd.choice(["sum", "mean"])))
    for sh in [(3, 5), (4, 4), (2, 2, 3), (6, 2)]:
        for fac in itertools.product(*[range(1, min(s, 3) + 1) for s in sh]):
            extra.append((sh, tuple(range(len(sh))), fac, rnd.choice(["sum", "mean"])))
    bins += rnd.sample(extra, 6) if quick else extra
    for sh, ax, fac, red in bins:
        name = f"bin[{'x'.join(map(str, sh))};axes={ax};f={fac};{red}]"
        out.append((name, bin_claim(sh, ax, fac, red), dict(logic="QF_LRA")))
    # --- Fourier resampling: exact on lengths 1, 2, 4; tolerance 1e-9 on the others
    rs = [((4,), (0,), (2,)), ((2,), (0,), (4,)), ((4,), (0,), (1,)), ((4,), (0,), (4,)), ((4, 2), (0, 1), (2, 4)),
          ((2, 4), (1,), (2,)), ((3,), (0,), (5,)), ((5,), (0,), (2,)), ((6,), (0,), (3,)), ((3, 4), (0, 1), (4, 3)),
          ((4,), (0,), (7,)), ((1,), (0,), (3,)), ((2, 4), (-1,), (2,)), ((4, 2), (-1, -2), (4, 2)), ((4, 2), (1, 0), (4, 2))]
    more = [((n,), (0,), (m,)) for n in range(1, 8) for m in range(1, 9)] + \
           [((3, 4), (0, 1), (2, 2)), ((4, 3), (0,), (2,)), ((2, 2, 4), (0, 2), (4, 2)), ((5, 2), (0, 1), (3, 3))]
    rs += rnd.sample(more, 5) if quick else more
    for sh, ax, ol in rs:
        name = f"resample[{'x'.join(map(str, sh))}->{ol};axes={ax}]"
        out.append((name, resample_claim(sh, ax, ol), dict(logic="QF_NRA")))
    out.append(("resample_complex[4->2]", resample_claim((4,), (0,), (2,), kind="complex"), dict(logic="QF_LRA")))
    out.append(("resample_complex[3x2->2x4]", resample_claim((3, 2), (0, 1), (2, 4), kind="complex"), dict(logic="QF_LRA")))
    out.append(("resample_factors[4->2]", resample_claim((4,), (0,), (2,), use_factors=True), dict(logic="QF_LRA")))
    out.append(("resample_factors[2x3->4x6]", resample_claim((2, 3), (0, 1), (4, 6), use_factors=True), dict(logic="QF_LRA")))
    # factors for which length * factor is not an integer: the output length is rounded, the calibration must follow the length
    out.append(("resample_factors[7 * 0.5]", resample_claim((7,), (0,), None, factors=(0.5,)), dict(logic="QF_LRA")))
    out.append(("resample_factors[3 * 1.5]", resample_claim((3,), (0,), None, factors=(1.5,)), dict(logic="QF_LRA")))
    out.append(("resample_factors[2x7 * 0.5;axes=(-1,)]", resample_claim((2, 7), (-1,), None, factors=(0.5,)), dict(logic="QF_LRA")))
    out.append(("resample_factors[3x5 * (0.5, 0.7)]", resample_claim((3, 5), (0, 1), None, factors=(0.5, 0.7)), dict(logic="QF_LRA")))
    ud = [((2,), (0,), (4,)), ((4,), (0,), (8,)), ((3,), (0,), (4,)), ((4, 2), (0, 1), (5, 4)), ((3, 4), (0, 1), (4, 6)),
          ((5,), (0,), (6,)), ((6,), (0,), (7,))]
    for sh, ax, ol in (ud if not quick else ud[:5]):
        out.append((f"updown[{'x'.join(map(str, sh))}->{ol}]", resample_claim(sh, ax, ol, updown=True), dict(logic="QF_NRA")))
    lin = [((4,), (0,), (2,)), ((3,), (0,), (4,)), ((2, 4), (0, 1), (4, 2))]
    for sh, ax, ol in lin:
        out.append((f"linear[{'x'.join(map(str, sh))}->{ol}]", linear_claim(sh, ax, ol), dict(logic="QF_NRA")))
    pc = [((3,), (6,)), ((4,), (7,)), ((2, 3), (5, 4)), ((3, 3), (3, 8)), ((2, 2, 3), (3, 2, 6)), ((5,), (5,))]
    for sh, osh in pc:
        out.append((f"padcrop[{'x'.join(map(str, sh))}->{'x'.join(map(str, osh))}]", padcrop_claim(sh, osh), dict(logic="QF_LRA")))
    return out


for _name, _claim, _ in cases("thorough"):
    register(PID, _name, _claim)


def run(check, tier):
    check.add_functions("Dataset.bin", "Dataset.fourier_resample", "Dataset.pad", "Dataset.crop", "Dataset.copy",
                        "Dataset.from_array / setters / validate_ndinfo (symbolic calibration)")
    check.bounds.update(shapes="1-D lengths 1..7, 2-D up to 5x4 / 6x2, 3-D up to 2x3x4", factors="1..4 incl. non-dividing",
                        out_lengths="1..8 (odd<->even, up and down)", exact_dft_lengths="1, 2, 3, 4, 6 (3 and 6 with the algebraic constant sqrt(3); others: float64 twiddles as exact "
                        "rationals, equalities asked with tolerance 1e-9 for contents in [-1, 1])",
                        symbolic="all array elements (real or complex) in [-1,1], origin in [-5,5], sampling in [0.1,4]")
    check.assumptions += ["floating point is modelled as exact real arithmetic", "NumPy functions behave as the symbolic library "
                          "model says (validated on every run against real NumPy at random inputs)"]
    check.outside += ["4-D arrays (same code path)", "integer dtypes in fourier_resample / pad / crop; int64 / uint64 block sums (engine X covers bin for the six narrower dtypes)"]
    check.engines.add("symnum + z3 " + __import__("z3").get_version_string())
    decide_many(check, [(n, c, dict(o, key=n.split("[")[0])) for n, c, o in cases(tier)],
                timeout_s=60 if tier == "quick" else 300, validate=1 if tier == "quick" else 3)
    # integer / boolean dtypes through the real bin (engine X: symbolic selectors over concrete values at the extremes of each dtype)
    from ..xh import run_jobs
    check.bounds.update(integer_dtypes="uint8, int8, uint16, int16, int32, bool; values at the extremes and interior of the dtype; factors 2, 3; "
                                       "sum and mean; 1-D and 2-D")
    run_jobs(check, "harness/c06_dtypes.py", [dict(fn="bin_ints__reach", timeout=60)]
             + [dict(fn="bin_ints", fixed=dict(dt=dt), timeout=300, key="bin_integer_dtypes") for dt in range(6)])
