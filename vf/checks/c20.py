"""C20 display normalisation — engine S: the real interval / stretch / CustomNormalization code runs on
symbolic limits, data values and stretch parameters; transcendental functions are uninterpreted
functions with instantiated monotonicity / inverse laws (QF_UFNRA)."""
import numpy as np

import quantem.core.visualization.custom_normalizations as cn

from ..common import DISCHARGED, ERROR
from ..sym.claims import Rel, decide, decide_many, register
from ..sym.core import S

TECHNIQUE = ("term-valued symbolic execution of the real BaseInterval/stretch/CustomNormalization NumPy code on z3 real "
             "terms; log/exp/sinh/asinh/x^p as uninterpreted functions with monotonicity and inverse laws instantiated on the "
             "occurring arguments; range/monotonicity/limit/inverse claims decided by z3 (QF_UFNRA)")
PID = "C20"


def _quantile_stub(I):
    def quantile(values, q):
        """contract of np.quantile on data with >= 2 distinct values and lower < upper quantile:
        some pair lo < hi inside [min, max] of the finite data"""
        vals = np.asarray(values).reshape(-1)
        if I.mode != "sym":
            lo, hi = np.quantile(values, q)
            I.values["q_lo"], I.values["q_hi"] = float(lo), float(hi)
            return lo, hi
        lo, hi = I.real("q_lo"), I.real("q_hi")
        mn = vals[0]
        mx = vals[0]
        from ..sym.npx import _smax, _smin
        for v in vals[1:]:
            mn, mx = _smin(mn, v), _smax(mx, v)
        mn, mx = (mn.item() if hasattr(mn, "item") else mn), (mx.item() if hasattr(mx, "item") else mx)
        I.assume(lo < hi)
        I.assume(lo >= mn)
        I.assume(hi <= mx)
        return lo, hi
    return quantile


def _make_norm(I, interval, stretch, data):
    """build the object through the real constructor with concrete stand-in numbers (matplotlib's
    Normalize.__init__ calls float()), then put the symbolic limits / parameters in place"""
    kw = {}
    if stretch == "power":
        kw["power"] = 2.0
    n = cn.CustomNormalization(interval_type=interval.split(":")[0], stretch_type=stretch,
                               vmin=0.25 if interval == "manual" else None, vmax=3.0 if interval == "manual" else None,
                               half_range=2.0 if interval == "centered:half" else None, **kw)
    if stretch == "power":
        n.stretch.power = I.real("p", 0.05, 8, positive=True)
    elif stretch == "logarithmic":
        n.stretch.a = I.real("a", 0.01, 2000, positive=True)
    elif stretch == "asinh":
        n.stretch.a = I.real("a", 0.01, 10, positive=True)
    if interval == "manual":
        vmin = I.real("vmin", -10, 10)
        vmax = I.real("vmax", -10, 10)
        I.assume(vmin < vmax)
        n.interval.vmin, n.interval.vmax = vmin, vmax
        return n, vmin, vmax
    if interval == "centered:half":
        c = I.real("vcenter", -5, 5)
        h = I.real("half", 0.01, 10, positive=True)
        n.interval.vcenter, n.interval.half_range = c, h
        lo, hi = n.interval.get_limits(data)
        return n, lo, hi
    if interval == "centered":
        n.interval.vcenter = I.real("vcenter", -5, 5)
        lo, hi = n.interval.get_limits(data)
        return n, lo, hi
    # quantile: limits are frozen from the data by _set_limits
    lo, hi = n.interval.get_limits(data)
    if I.mode != "sym":
        I.values["q_lo"], I.values["q_hi"] = float(lo), float(hi)
    n.interval = cn.ManualInterval(lo, hi)
    return n, lo, hi


def norm_claim(interval, stretch):
    def claim(I):
        with I.patch(cn, overrides=dict(quantile=_quantile_stub(I))):
            x1 = I.real("x1", -10, 10)
            x2 = I.real("x2", -10, 10)
            x3 = I.real("x3", -10, 10)
            I.assume(x1 <= x2)
            I.assume(x1 < x3) if I.mode == "sym" else None
            if I.mode != "sym":
                vals = sorted([I.values["x1"], I.values["x2"]])
                I.values["x1"], I.values["x2"] = vals
                x1, x2 = vals
                if not (x1 < x3):
                    I.values["x3"] = x3 = x1 + 1.0
                for a, b in (("vmin", "vmax"),):
                    if a in I.values or True:
                        pass
            mk = (lambda *v: np.array(v, dtype=float)) if I.mode != "sym" else (lambda *v: np.array([None] + list(v), dtype=object)[1:])
            data = mk(x1, x2, x3)
            if I.mode == "sym":
                from ..sym.npx import lift
                data = lift(data)
            n, lo, hi = _make_norm(I, interval, stretch, data)
            if I.mode != "sym" and not (complex(lo).real < complex(hi).real):
                # the numeric stand-in must satisfy the precondition vmin < vmax
                I.values["vmin"], I.values["vmax"] = sorted([I.values.get("vmin", 0.0), I.values.get("vmax", 1.0) + 1e-3])
                n, lo, hi = _make_norm(I, interval, stretch, data)
            values = mk(x1, x2, lo, hi)
            if I.mode == "sym":
                from ..sym.npx import lift
                values = lift(values)
            y = cn.CustomNormalization.__call__(n, values)
            y = np.asarray(y)
            return [Rel("range_lower", [y[0], y[1]], 0.0, op="ge"),
                    Rel("range_upper", [y[0], y[1]], 1.0, op="le"),
                    Rel("monotone", y[0], y[1], op="le"),
                    Rel("lower_limit_to_0", y[2], 0.0),
                    Rel("upper_limit_to_1", y[3], 1.0)]
    return claim


def degenerate_claim(stretch):
    """a zero-width interval (limits coincide although the data has distinct values - e.g. the quantiles of a sparse image):
    finite data still maps into [0, 1] and the map is still non-decreasing"""
    def claim(I):
        with I.patch(cn):
            x1 = I.real("x1", -10, 10)
            x2 = I.real("x2", -10, 10)
            v = I.real("v", -10, 10)
            I.assume(x1 <= x2)
            if I.mode != "sym":
                x1, x2 = sorted([x1, x2])
            kw = {"power": 2.0} if stretch == "power" else {}
            n = cn.CustomNormalization(interval_type="manual", stretch_type=stretch, vmin=0.25, vmax=3.0, **kw)
            n.interval.vmin, n.interval.vmax = v, v
            if I.mode == "sym":
                from ..sym.npx import lift
                values = lift(np.array([None, x1, x2], dtype=object)[1:])
            else:
                values = np.array([x1, x2], dtype=float)
            y = np.asarray(cn.CustomNormalization.__call__(n, values))
            return [Rel("range_lower", [y[0], y[1]], 0.0, op="ge"), Rel("range_upper", [y[0], y[1]], 1.0, op="le"),
                    Rel("monotone", y[0], y[1], op="le")]
    return claim


def inverse_claim(kind):
    def claim(I):
        with I.patch(cn):
            y0 = I.real("y", 0, 1)
            if kind == "power":
                st = cn.PowerLawStretch(I.real("p", 0.05, 8, positive=True))
            elif kind == "log":
                st = cn.LogarithmicStretch(I.real("a", 0.01, 2000, positive=True))
            elif kind == "invlog":
                st = cn.InverseLogarithmicStretch(I.real("a", 0.01, 2000, positive=True))
            elif kind == "asinh":
                st = cn.InverseHyperbolicSineStretch(I.real("a", 0.01, 10, positive=True))
            elif kind == "sinh":
                st = cn.HyperbolicSineStretch(I.real("a", 0.01, 10, positive=True))
            else:
                st = cn.LinearStretch()
            inv = st.inverse

            def arr():
                if I.mode == "sym":
                    from ..sym.npx import lift
                    return lift(np.array([None, y0], dtype=object)[1:])
                return np.array([y0], dtype=float)
            a = np.asarray(inv(st(arr())))
            b = np.asarray(st(inv(arr())))
            return [Rel("inverse_after_stretch", a[0], y0, ntol=1e-6), Rel("stretch_after_inverse", b[0], y0, ntol=1e-6)]
    return claim


class _FakeAx:
    """stand-in for a matplotlib Axes: the display function only hands the finished RGBA image to it"""
    def __init__(self):
        self.spines = {}

    def imshow(self, *a, **k):
        return None

    def set(self, **k):
        return None


DISPLAY_CONFIGS = {
    # label -> (norm argument, extra keyword arguments, explicit limits the configuration states (or None))
    "manual:dict": (lambda: dict(interval_type="manual", vmin=-1.5, vmax=2.5), {}, (-1.5, 2.5)),
    "manual:kwargs": (lambda: None, dict(vmin=-1.5, vmax=2.5), (-1.5, 2.5)),
    "manual:config:power": (lambda: cn.NormalizationConfig(interval_type="manual", stretch_type="power", power=2.0, vmin=-1.5, vmax=2.5), {}, (-1.5, 2.5)),
    "centered:half:dict": (lambda: dict(interval_type="centered", vcenter=0.5, half_range=2.0), {}, (-1.5, 2.5)),
    "centered:half:config": (lambda: cn.NormalizationConfig(interval_type="centered", vcenter=0.5, half_range=2.0), {}, (-1.5, 2.5)),
    "centered:half:config:power": (lambda: cn.NormalizationConfig(interval_type="centered", stretch_type="power", power=0.5, vcenter=0.5, half_range=2.0), {}, (-1.5, 2.5)),
    "centered:vcenter:dict": (lambda: dict(interval_type="centered", vcenter=0.5), {}, None),
    "quantile:kwargs": (lambda: None, dict(lower_quantile=0.1, upper_quantile=0.9), None),
    "preset:linear_centered": (lambda: "linear_centered", {}, None),
    "preset:power_squared": (lambda: "power_squared", {}, None),
    "preset:power_sqrt": (lambda: "power_sqrt", {}, None),
    "default": (lambda: None, {}, None),
}


def display_claim(label):
    """the configuration as the user writes it (dict / NormalizationConfig / preset name / keyword arguments) reaches the
    normalisation applied to the displayed amplitude: the real _show_2d_array runs on symbolic pixel values; the normalised
    image handed to the colour mapping is captured"""
    from unittest import mock

    import quantem.core.visualization.visualization as viz
    mk_norm, kwargs, limits = DISPLAY_CONFIGS[label]

    def claim(I):
        captured = {}

        def fake_rgba(scaled, angle=None, **kw):
            captured["y"] = scaled
            return np.zeros((1, 2, 4))

        def _get(self, nm):
            return self.__dict__.get("_verif_" + nm)

        props = {nm: property(lambda self, nm=nm: self.__dict__.get("_verif_" + nm),
                              lambda self, v, nm=nm: self.__dict__.__setitem__("_verif_" + nm, v)) for nm in ("vmin", "vmax")}
        real_quantile = np.quantile

        def recording_quantile(values, q, *a, **k):
            lo, hi = real_quantile(values, q, *a, **k)
            I.values["q_lo"], I.values["q_hi"] = float(lo), float(hi)
            return lo, hi

        with I.patch(cn, viz, overrides=dict(quantile=_quantile_stub(I))), \
                (mock.patch.object(np, "quantile", recording_quantile) if I.mode != "sym" else mock.patch.object(viz, "array_to_rgba", fake_rgba)), \
                mock.patch.object(viz, "array_to_rgba", fake_rgba), \
                mock.patch.object(cn.CustomNormalization, "vmin", props["vmin"]), \
                mock.patch.object(cn.CustomNormalization, "vmax", props["vmax"]):
            x1 = I.real("x1", -10, 10)
            x2 = I.real("x2", -10, 10)
            x3 = I.real("x3", -10, 10)
            I.assume(x1 <= x2)
            I.assume(x1 < x3)
            if I.mode != "sym":
                x1, x2 = sorted([x1, x2])
                if not (x1 < x3):
                    x3 = x1 + 1.0
                I.values.update(x1=x1, x2=x2, x3=x3)
            pix = [x1, x2, x3] + (list(limits) if limits else [])
            if I.mode == "sym":
                from ..sym.npx import lift
                data = lift(np.array([None] + pix, dtype=object)[1:].reshape(1, -1))
            else:
                data = np.array(pix, dtype=float).reshape(1, -1)
            viz._show_2d_array(data, norm=mk_norm(), figax=(None, _FakeAx()), **kwargs)
            y = np.asarray(captured["y"]).reshape(-1)
            rels = [Rel("displayed_range_lower", [y[0], y[1], y[2]], 0.0, op="ge"),
                    Rel("displayed_range_upper", [y[0], y[1], y[2]], 1.0, op="le"),
                    Rel("displayed_monotone", y[0], y[1], op="le")]
            if limits:
                rels += [Rel("configured_lower_limit_displayed_as_0", y[3], 0.0),
                         Rel("configured_upper_limit_displayed_as_1", y[4], 1.0)]
            return rels
    return claim


def display_combined_claim(label):
    """same for the combined display (_show_2d_combined): the normalisation object handed to the colour merging
    (list_of_arrays_to_rgba applies it to every array) is captured and applied to the symbolic image"""
    from unittest import mock

    import quantem.core.visualization.visualization as viz
    mk_norm, kwargs, limits = DISPLAY_CONFIGS[label]

    def claim(I):
        captured = {}

        def fake_list_rgba(arrays, norm=None, **kw):
            captured["y"] = [norm(a) for a in arrays]
            return np.zeros((1, 2, 4))

        props = {nm: property(lambda self, nm=nm: self.__dict__.get("_verif_" + nm),
                              lambda self, v, nm=nm: self.__dict__.__setitem__("_verif_" + nm, v)) for nm in ("vmin", "vmax")}
        real_quantile = np.quantile

        def recording_quantile(values, q, *a, **k):
            lo, hi = real_quantile(values, q, *a, **k)
            I.values["q_lo"], I.values["q_hi"] = float(lo), float(hi)
            return lo, hi

        with I.patch(cn, viz, overrides=dict(quantile=_quantile_stub(I))), \
                (mock.patch.object(np, "quantile", recording_quantile) if I.mode != "sym" else _NullCtx()), \
                mock.patch.object(viz, "list_of_arrays_to_rgba", fake_list_rgba), \
                mock.patch.object(cn.CustomNormalization, "vmin", props["vmin"]), \
                mock.patch.object(cn.CustomNormalization, "vmax", props["vmax"]):
            x1 = I.real("x1", -10, 10)
            x2 = I.real("x2", -10, 10)
            x3 = I.real("x3", -10, 10)
            I.assume(x1 <= x2)
            I.assume(x1 < x3)
            if I.mode != "sym":
                x1, x2 = sorted([x1, x2])
                if not (x1 < x3):
                    x3 = x1 + 1.0
                I.values.update(x1=x1, x2=x2, x3=x3)
            pix = [x1, x2, x3] + (list(limits) if limits else [])
            if I.mode == "sym":
                from ..sym.npx import lift
                data = lift(np.array([None] + pix, dtype=object)[1:].reshape(1, -1))
            else:
                data = np.array(pix, dtype=float).reshape(1, -1)
            viz._show_2d_combined([data], norm=mk_norm(), figax=(None, _FakeAx()), **kwargs)
            y = np.asarray(captured["y"][0]).reshape(-1)
            rels = [Rel("displayed_range_lower", [y[0], y[1], y[2]], 0.0, op="ge"),
                    Rel("displayed_range_upper", [y[0], y[1], y[2]], 1.0, op="le"),
                    Rel("displayed_monotone", y[0], y[1], op="le")]
            if limits:
                rels += [Rel("configured_lower_limit_displayed_as_0", y[3], 0.0),
                         Rel("configured_upper_limit_displayed_as_1", y[4], 1.0)]
            return rels
    return claim


class _NullCtx:
    def __enter__(self):
        return None

    def __exit__(self, *a):
        return False


INTERVALS = ["manual", "centered:half", "centered", "quantile"]
STRETCHES = ["linear", "power", "logarithmic", "asinh"]
INVERSES = ["linear", "power", "log", "invlog", "asinh", "sinh"]


def cases():
    out = []
    for iv in INTERVALS:
        for st in STRETCHES:
            out.append((f"normalize[{iv};{st}]", norm_claim(iv, st)))
    for k in INVERSES:
        out.append((f"inverse[{k}]", inverse_claim(k)))
    for st in ("linear", "power"):        # (log / asinh with their concrete default parameter: the UF laws are too weak at the clipped end points)
        out.append((f"degenerate_interval[{st}]", degenerate_claim(st)))
    for lab in DISPLAY_CONFIGS:
        out.append((f"display[{lab}]", display_claim(lab)))
    for lab in ("manual:dict", "manual:kwargs", "centered:half:config", "centered:vcenter:dict", "default"):
        out.append((f"display_combined[{lab}]", display_combined_claim(lab)))
    return out


for _n, _c in cases():
    register(PID, _n, _c)


def special_values(check):
    """NaN / inf through the real code (concrete: special values cannot be solver variables)"""
    ok = True
    for iv, kw in (("manual", dict(vmin=-1.0, vmax=2.0)), ("quantile", {}), ("centered", {})):
        for st in STRETCHES:
            data = np.array([0.5, np.nan, np.inf, -np.inf, -0.5, 1.5])
            n = cn.CustomNormalization(interval_type=iv, stretch_type=st, data=data, **kw)
            with np.errstate(all="ignore"):
                y = n(data.copy())
            good = (np.ma.is_masked(y[1]) and float(y[2]) == 1.0 and float(y[3]) == 0.0
                    and all(0.0 <= float(y[i]) <= 1.0 for i in (0, 4, 5)))
            check.validated += 1
            if not good:
                ok = False
                check.error(f"special values through the real code: interval={iv} stretch={st} -> {y!r}")
    return ok


def run(check, tier):
    check.add_functions("BaseInterval.__call__", "ManualInterval.get_limits", "CenteredInterval.get_limits", "QuantileInterval.get_limits",
                        "LinearStretch", "PowerLawStretch", "LogarithmicStretch", "InverseLogarithmicStretch",
                        "InverseHyperbolicSineStretch", "HyperbolicSineStretch", "their .inverse", "CustomNormalization.__init__/__call__",
                        "_resolve_normalization / NORMALIZATION_PRESETS", "visualization._show_2d_array, _show_2d_combined (configuration -> applied normalisation)")
    check.bounds.update(symbolic="vmin < vmax, data x1 <= x2 and a third value in [-10, 10], power in [0.05, 8], logarithmic a in [0.01, 2000], "
                                 "asinh a in [0.01, 10], centre in [-5, 5], half range in (0, 10]",
                        configurations="4 interval kinds x 4 stretch kinds; 6 stretch/inverse pairs; every preset resolves to one of them; "
                                       f"{len(DISPLAY_CONFIGS)} display configurations (dict / NormalizationConfig / preset / keyword forms) on a 1x3..1x5 symbolic image")
    check.stubs.append("display claims: array_to_rgba captures the normalised image; a stand-in Axes; matplotlib's Normalize.vmin/vmax properties store the value as given")
    check.stubs.append("np.quantile -> any pair lo < hi inside the finite data range (its contract for distinct data)")
    check.assumptions += ["log, exp, sinh, asinh, x^p are uninterpreted; only strict monotonicity, signs, f(1)/f(0) values and "
                          "f(f^-1(x)) = x are used (an unsat under fewer laws is still sound)",
                          "matplotlib's Normalize.__init__ is run with concrete stand-in limits; the symbolic limits are then set "
                          "on the interval object", "NaN/inf behaviour is exercised concretely (not a solver claim)"]
    check.outside += ["degenerate intervals vmin == vmax for the logarithmic / asinh stretches", "LinearStretch with non-default slope/intercept",
                      "integer input dtypes beyond the engine-X menu (six dtypes, values at the extremes and interior of the dtype, four "
                      "Python-int limit pairs / centres, manual and centred intervals, linear / power stretch)", "display functions other than _show_2d_array / _show_2d_combined (show_2d grids), complex input to the display, colour mapping / colour bars; "
                      "display configurations with logarithmic / asinh stretches (concrete stretch parameter: the UF laws are too weak at the clipped end points)"]
    check.engines.add("symnum + z3 " + __import__("z3").get_version_string())
    presets_ok = True
    for name, mk in cn.NORMALIZATION_PRESETS.items():
        cfg = cn._resolve_normalization(name)
        if cfg.interval_type not in ("quantile", "manual", "centered") or cfg.stretch_type not in STRETCHES:
            presets_ok = False
            check.error(f"preset {name} resolves to an unmodelled configuration {cfg}")
    check.obligation("presets_resolve_to_modelled_configurations", DISCHARGED if presets_ok else ERROR, trivial=True,
                     detail=f"{len(cn.NORMALIZATION_PRESETS)} presets")
    decide_many(check, [(n, c, dict(key=n.split("[")[0])) for n, c in cases()], logic=None,
                timeout_s=60 if tier == "quick" else 300, validate=2 if tier == "quick" else 5)
    special_values(check)
    # special values by symbolic selector through the real code (engine X)
    from ..xh import run_jobs
    run_jobs(check, "harness/c20_special.py", [dict(fn="special", timeout=300, key="special_values"),
                                               dict(fn="special_preset", timeout=300, key="special_values_presets"),
                                               dict(fn="special__reach", timeout=60), dict(fn="int_dtype__reach", timeout=60)]
             + [dict(fn="int_dtype", fixed=dict(dt=dt), timeout=400, key="integer_dtypes") for dt in range(6)]
             + [dict(fn="int_dtype_centered__reach", timeout=60)]
             + [dict(fn="int_dtype_centered", fixed=dict(dt=dt), timeout=400, key="integer_dtypes_centered") for dt in range(6)])
