"""C01 serializer round trip — engine X over the real save()/load() on the in-memory store model."""
import random

from ..common import DISCHARGED, ERROR, seed
from ..xh import run_jobs

TECHNIQUE = ("CrossHair/z3 symbolic execution of the real AutoSerialize.save/load against an in-memory "
             "zarr/file-system model: graph shape selectors and int/float/str/bool payloads are solver "
             "variables, structural-equality post-condition; counterexamples replayed on the real zip and "
             "directory stores")
FILE = "harness/c01_roundtrip.py"

N_SCALAR, N_CONT = 6, 4
N_KINDS = N_SCALAR + N_CONT + 1


def validate_stub(check, n):
    """Serval-style validation of the store model: the same concrete graphs through the stubbed
    and the real save/load must load to equal graphs (or fail alike)."""
    import sys
    from ..common import ROOT
    sys.path.insert(0, str(ROOT / "harness"))
    import ser_common as sc
    import c01_roundtrip as h
    rnd = random.Random(seed())
    bad = 0
    for t in range(n):
        sel = rnd.randrange(len(sc.LEAVES))
        w = rnd.randrange(h.WRAPS)
        o = sc.Obj()
        o.v = h._wrap(sc.leaf(sel), w, "q")
        o.n = [rnd.randrange(-5, 5), rnd.random()]
        try:
            s2, s3 = sc.stub_roundtrip(o)
            stub = ("ok", s2)
        except Exception as e:
            stub = ("exc", type(e).__name__)
        try:
            rr = sc.real_roundtrip(o, configs=[sc.REAL_CONFIGS[t % len(sc.REAL_CONFIGS)]], twice=False)
            real = ("ok", rr[0][1])
        except Exception as e:
            real = ("exc", type(e).__name__)
        if stub[0] != real[0] or (stub[0] == "ok" and not sc.obj_eq(stub[1], real[1])):
            bad += 1
            check.error(f"store model disagrees with the real store on leaf {sc.LEAF_NAMES[sel]} wrap {w}: "
                        f"stub={stub} real={real}")
        else:
            check.validated += 1
    return bad


def run(check, tier):
    check.add_functions("AutoSerialize.save", "serialize.load", "_recursive_save", "_serialize_value",
                        "_serialize_container", "_write_ndarray", "_write_bytes", "_recursive_load",
                        "_deserialize_container", "_array_to_np", "_convert_string_to_path_if_needed")
    check.bounds.update(depth="<= 3 container levels, width 2 per container (sequences of strings: every length 0..23), <= 3 attributes",
                        symbolic="kind selectors, int (|i| < 2^62; int64 range in numeric sequences), float (real-valued), "
                                 "str (len <= 2, no '/'), bool",
                        leaves="37 concrete leaf kinds x 7 nesting positions (arrays incl. 0-d/empty, NumPy scalars, "
                               "tensors, nn.Linear, Path, nested object, rng, logger, big int, nan/inf, complex, bytes, frozenset)")
    check.stubs.append("os/shutil/tempfile/zarr/LocalStore/ZipFile of quantem.core.io.serialize -> vf/stubs/memfs.py "
                       "(validated against the real stores on every run)")
    check.assumptions += [
        "CrossHair treats float as a real number until it is realised; NaN/inf enter as concrete leaves",
        "store kind / compression level / path type / write mode are covered by the concrete replay and validation runs only (I/O cannot be symbolic)",
        "attribute names and dict keys are 'n'/'k' + symbolic string (valid zarr node names, not reserved)",
    ]
    check.outside += ["graphs deeper than 3 or wider than 2 per container (except string sequences up to 23 members)", "non-string dict keys",
                      "dill-fallback objects other than complex/bytes/frozenset", "sets with complex members next to numbers",
                      "mixed int/float numeric sequences with |int| > 2^53 when realised values do not hit them"]
    quick = tier == "quick"
    t = 120 if quick else 600
    import sys
    from ..common import ROOT
    sys.path.insert(0, str(ROOT / "harness"))
    import ser_common as sc
    jobs = [dict(fn="rt_scalars__reach", timeout=30), dict(fn="rt_graph__reach", timeout=60),
            dict(fn="overwrite_history", timeout=t * 2, key="overwrite_history")]
    for k0 in range(N_SCALAR):
        jobs.append(dict(fn="rt_scalars", fixed=dict(k0=k0), timeout=t, key="scalars"))
    for depth in (1, 2, 3):
        jobs.append(dict(fn="rt_nested_objects", fixed=dict(depth=depth), timeout=t, key="nested_objects"))
    # member-by-member sequences of every length (member keys with one and with two digits), both stores
    for n in ((0, 1, 10, 11, 12, 21) if quick else range(24)):
        for store in (0, 1):
            jobs.append(dict(fn="rt_long_seq", fixed=dict(n=n, store=store), timeout=t, key="sequence_order"))
    import c01_roundtrip as h
    rnd = random.Random(seed())
    for a in (h.QUICK_NUM_IDX if quick else h.NUM_IDX):
        for n in ((3,) if quick else (2, 3)):
            if quick:
                fixed = dict(a=a, n=n, menu=h.QUICK_NUM_IDX, wrap=rnd.randrange(3))
            elif n == 2:
                fixed = dict(a=a, n=n, wrap=rnd.randrange(3), c=0)                 # first member fixed, second over the whole menu (third unused)
            else:
                # three members: the other two range over the quick representatives plus four seeded menu entries (all 21 x 21
                # continuations per first member take > 15 CPU-minutes per job, 21 jobs)
                fixed = dict(a=a, n=n, wrap=rnd.randrange(3), menu=sorted(set(h.QUICK_NUM_IDX + rnd.sample(h.NUM_IDX, 4) + [a])))
            jobs.append(dict(fn="rt_numeric_seq", fixed=fixed, timeout=t * 2 if quick else 1500,
                             key=f"numeric_seq:a={a}"))
    # complex members next to (large) integers / floats / bools in lists, tuples and sets
    jobs.append(dict(fn="rt_complex_seq__reach", timeout=60))
    for a in (range(len(h.CSEQ_MENU)) if not quick else [1, 2, 5, 6] + rnd.sample(range(len(h.CSEQ_MENU)), 2)):
        for kind in range(2):       # list, tuple (sets of NumPy / complex members do not finish in CrossHair's set model: outside)
            for n in ((3,) if quick else (2, 3)):
                jobs.append(dict(fn="rt_complex_seq", fixed=dict(a=a, kind=kind, n=n, wrap=rnd.randrange(3)), timeout=t * 2 if quick else 1500,
                                 key=f"complex_seq:kind={kind}"))
    nleaf = len(sc.LEAVES)
    # leaves with a recorded known finding "leaf:<name>:in_container" are left out of the mixed-graph
    # harnesses (rt_leaf still reports them, as KNOWN-FINDING, and explores the rest of their space)
    from ..common import load_known
    skip = [k["key"].split(":")[1] for k in load_known()
            if k.get("property") == "C01" and k.get("status") == "known" and k["key"].endswith(":in_container")]
    pool = [i for i in range(nleaf) if sc.LEAF_NAMES[i] not in skip]
    for sel in range(nleaf):
        jobs.append(dict(fn="rt_leaf", fixed=dict(sel=sel), timeout=t, exclude=(0, 1),
                         key_fn=lambda a: (f"leaf:{sc.LEAF_NAMES[a[0]]}:" + ("attribute" if a[1] == 0 else "in_container"))))
    rnd = random.Random(seed())
    for k0 in range(N_SCALAR, N_SCALAR + N_CONT):
        for k1 in range(N_KINDS):
            # the second child's kind (k2) stays symbolic; grandchildren kinds, leaf selector and the small numbers are
            # pinned per job: one pin set per job in the quick tier, six different ones in the thorough tier
            for rep in range(1 if quick else 6):
                fixed = dict(k0=k0, k1=k1, skip_leaves=skip)
                fixed.update(k3=rnd.choice([0, 2, 6, 8, 9] if quick else list(range(N_KINDS))),
                             k4=rnd.choice([1, 3, 5, 7] if quick else list(range(N_KINDS))), sel=rnd.choice(pool),
                             i=rnd.choice([-1, 0, 1]), f=rnd.choice([1, 6]))
                jobs.append(dict(fn="rt_graph", fixed=fixed, timeout=t, key=f"graph:k0={k0},k1={k1}"))
    for ki in range(11):
        if quick:
            jobs.append(dict(fn="rt_keys", fixed=dict(ki=ki, sel=rnd.choice(pool), ni=rnd.randrange(8),
                                                      k0=rnd.randrange(N_SCALAR + 1), k1=rnd.randrange(N_SCALAR + 1)),
                             timeout=t * 2, key=f"keys:ki={ki}"))
        else:
            for ni in range(8):
                jobs.append(dict(fn="rt_keys", fixed=dict(ki=ki, ni=ni, sel=rnd.choice(pool), k0=rnd.randrange(N_SCALAR + 1),
                                                          skip_leaves=skip), timeout=t * 2, key=f"keys:ki={ki}"))
    run_jobs(check, FILE, jobs)
    validate_stub(check, 40 if quick else 200)
