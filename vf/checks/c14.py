"""C14 serializer skip lists — engine X over the real save()/load() on the in-memory store model."""
import random

from ..common import seed
from ..xh import run_jobs

TECHNIQUE = ("CrossHair/z3 symbolic execution of the real AutoSerialize.save/load (skip normalisation, skip "
             "metadata, per-kind filtering) against the in-memory store model; save-time / load-time name and "
             "type selectors are solver variables; reference-model post-condition; replay on the real stores")
FILE = "harness/c14_skip.py"
NONE_N, NONE_T = 10, 7


def run(check, tier):
    check.add_functions("AutoSerialize.save (skip normalisation, write_skip_metadata)", "_recursive_save",
                        "_serialize_value", "serialize.load (merge of stored and user skip lists, type import)",
                        "_recursive_load (per-kind filtering, final delattr)")
    check.bounds.update(names="universe of 10 names (8 present at depths 1-3, one absent, one that only occurs in the storage layout; several also occur as dict keys inside containers); <= 1 (quick) / <= 2 (thorough) "
                              "names at save and at load, chosen independently",
                        types="one of 7 types (int, str, ndarray, dict, nested class, Path, float) or none, at save time",
                        nesting="3 levels of attribute-nested AutoSerialize objects",
                        payload="symbolic int / str (len <= 2) / float attribute values",
                        forms="skip given as list (quick), bare str/type or tuple (thorough)")
    check.stubs.append("os/shutil/tempfile/zarr/LocalStore/ZipFile of quantem.core.io.serialize -> vf/stubs/memfs.py")
    check.assumptions += ["nested AutoSerialize objects are reached through attributes (objects inside containers are outside, as the property says)",
                          "skip types are importable by module + qualified name"]
    check.outside += ["more than two names per list", "load-time type skipping", "real store configurations (covered by replay only)"]
    quick = tier == "quick"
    rnd = random.Random(seed())
    jobs = [dict(fn="skips__reach", timeout=60)]
    t = 200 if quick else 900
    base = dict(s2=NONE_N, l2=NONE_N, form=0, nofloat=1, nostr=1)
    allN = list(range(NONE_N + 1))
    if quick:
        # (1) every save-name x load-name pair without types; every type with/without one seeded name
        for s1 in allN:
            jobs.append(dict(fn="skips", fixed=dict(base, part=1, s1=s1, t1_in=[NONE_T]), timeout=t, key="skips:part=1"))
        for t1 in range(NONE_T):
            jobs.append(dict(fn="skips", fixed=dict(base, part=1, s1_in=[rnd.randrange(NONE_N), NONE_N], l1_in=[NONE_N], t1_in=[t1]),
                             timeout=t, key="skips:part=1:types"))
        # (2) load-time == save-time, three seeded load names per save name
        for s1 in allN:
            jobs.append(dict(fn="skips", fixed=dict(base, part=2, s1=s1, l1_in=sorted(rnd.sample(allN, 3)), t1_in=[NONE_T]),
                             timeout=t, key="skips:part=2"))
        # (3) recorded skips honoured with / without repeating them, with / without a type
        for s1 in allN:
            jobs.append(dict(fn="skips", fixed=dict(base, part=3, s1=s1, l1_in=[s1, NONE_N], t1_in=[rnd.randrange(NONE_T), NONE_T]),
                             timeout=t, key="skips:part=3"))
        for s1 in allN:
            jobs.append(dict(fn="skips_zip", fixed=dict(s1=s1, t1=rnd.randrange(NONE_T + 1), maxlen=0,
                                                        l1_in=sorted(rnd.sample(allN, 3))), timeout=t, key="skips_zip"))
    else:
        # two names skipped at save time and at load time, three skip spellings, symbolic one-character payloads; the load-name
        # and type selectors are pinned to seeded subsets per job (all of them free: > 17 CPU-minutes per job, 99 jobs)
        for part in (1, 2, 3):
            for s1 in allN:
                for s2 in sorted(rnd.sample(allN, 3)):
                    form = rnd.randrange(3)
                    jobs.append(dict(fn="skips", fixed=dict(part=part, s1=s1, s2=s2, l2=rnd.randrange(NONE_N + 1), form=form,
                                                            nofloat=1, maxlen=1, l1_in=sorted(rnd.sample(allN, 5)),
                                                            t1_in=sorted(rnd.sample(range(NONE_T), 3)) + [NONE_T]),
                                     timeout=t, key=f"skips:part={part}"))
        for s1 in allN:
            for t1 in range(NONE_T + 1):
                jobs.append(dict(fn="skips_zip", fixed=dict(s1=s1, t1=t1, maxlen=1, l1_in=sorted(rnd.sample(allN, 5))), timeout=t,
                                 key="skips_zip"))
    run_jobs(check, FILE, jobs)
