"""C12 one aberration surface — engine S with phasor/Chebyshev algebra: the real torch code of
complex_probe.py runs on symbolic alpha, phi (angle atom), wavelength and all coefficient symbols;
the true gradient is obtained by differentiating the term produced by aberration_surface."""
import math

import torch

import quantem.diffractive_imaging.complex_probe as cp

from ..sym import core
from ..sym.claims import Rel, decide, decide_many, register
from ..sym.core import S, diff_S, to_S, wrt_angle, wrt_var

TECHNIQUE = ("term-valued symbolic execution of the real torch code (aberration_surface, *_gradients, cartesian basis, "
             "polar<->cartesian conversion, merge, standardize) with cos/sin of integer angle combinations expanded into "
             "polynomials of one (cos, sin) atom pair per angle (c^2+s^2=1); identities incl. the symbolic derivative of the "
             "executed surface decided by z3 (QF_NRA)")
PID = "C12"

ORDERS = {1: ["C10", "C12", "phi12"], 2: ["C21", "phi21", "C23", "phi23"], 3: ["C30", "C32", "phi32", "C34", "phi34"],
          4: ["C41", "phi41", "C43", "phi43", "C45", "phi45"], 5: ["C50", "C52", "phi52", "C54", "phi54", "C56", "phi56"]}


def _coefs(I, names):
    out = {}
    for n in names:
        if n.startswith("phi"):
            out[n] = I.tscalar(I.angle(n))
        else:
            out[n] = I.tscalar(I.real(n, -3, 3))
    return out


def _geom(I):
    alpha = I.tscalar(I.real("alpha", 0, 2, nonneg=True))
    phi_s = I.angle("phi")
    lam = I.real("lam", 0.01, 2, positive=True)
    return alpha, I.tscalar(phi_s), phi_s, lam


def surface_vs_basis(names):
    def claim(I):
        with I.patch_torch(cp):
            alpha, phi, _, lam = _geom(I)
            polar = _coefs(I, names)
            chi = cp.aberration_surface(alpha, phi, lam, polar)
            cart = cp.polar_to_cartesian_aberrations(polar)
            labels = [k for k in cart]
            basis = cp.aberration_surface_cartesian_basis(alpha, phi, lam, labels)
            chi2 = sum(basis[..., i] * cart[lab] for i, lab in enumerate(labels))
            return [Rel("polar_surface_equals_cartesian_expansion", chi, chi2, ntol=1e-6)]
    return claim


def roundtrip(names):
    def claim(I):
        with I.patch_torch(cp):
            alpha, phi, _, lam = _geom(I)
            polar = _coefs(I, names)
            chi = cp.aberration_surface(alpha, phi, lam, polar)
            back = cp.cartesian_to_polar_aberrations(cp.polar_to_cartesian_aberrations(polar))
            chi_back = cp.aberration_surface(alpha, phi, lam, back)
            merged = cp.merge_aberration_coefficients(polar, {})
            chi_merged = cp.aberration_surface(alpha, phi, lam, merged)
            return [Rel("cartesian_to_polar_of_polar_to_cartesian_same_surface", chi_back, chi, ntol=1e-6),
                    Rel("merge_with_zero_delta_same_surface", chi_merged, chi, ntol=1e-6)]
    return claim


def basis_order(labels):
    """the Cartesian basis column of a label does not depend on where the label stands in the list"""
    def claim(I):
        with I.patch_torch(cp):
            alpha, phi, _, lam = _geom(I)
            basis = cp.aberration_surface_cartesian_basis(alpha, phi, lam, list(labels))
            rels = []
            for i, lab in enumerate(labels):
                alone = cp.aberration_surface_cartesian_basis(alpha, phi, lam, [lab])
                rels.append(Rel(f"basis_column_independent_of_label_order[{lab}]", basis[..., i], alone[..., 0], ntol=1e-6))
            return rels
    return claim


def merge_additive(names, label):
    def claim(I):
        with I.patch_torch(cp):
            alpha, phi, _, lam = _geom(I)
            polar = _coefs(I, names)
            d = I.tscalar(I.real("delta", -2, 2))
            merged = cp.merge_aberration_coefficients(polar, {label: d})
            chi = cp.aberration_surface(alpha, phi, lam, polar)
            chi_m = cp.aberration_surface(alpha, phi, lam, merged)
            basis = cp.aberration_surface_cartesian_basis(alpha, phi, lam, [label])
            return [Rel("merge_adds_delta_times_basis", chi_m, chi + basis[..., 0] * d, ntol=1e-6)]
    return claim


def gradients(names):
    def claim(I):
        with I.patch_torch(cp):
            alpha, phi, phi_s, lam = _geom(I)
            polar = _coefs(I, names)
            chi = cp.aberration_surface(alpha, phi, lam, polar)
            gk, gphi = cp.aberration_surface_polar_gradients(alpha, phi, polar)
            gx, gy = cp.aberration_surface_cartesian_gradients(alpha, phi, polar)
            if I.mode == "sym":
                ctx = core.ctx()
                chi_s = to_S(chi.a.reshape(-1)[0])
                a_s = to_S(alpha.a.reshape(-1)[0])
                d_alpha = diff_S(chi_s, wrt_var(a_s))
                d_phi = diff_S(chi_s, wrt_angle(ctx, phi_s))
                v, unit, c, s = ctx.angles[core._z(phi_s.re).get_id()]
                c, s = S(c), S(s)
            else:
                a0 = alpha.clone().requires_grad_(True)
                p0 = phi.clone().requires_grad_(True)
                chi0 = cp.aberration_surface(a0, p0, lam, polar)
                d_alpha, d_phi = torch.autograd.grad(chi0, (a0, p0))
                a_s, c, s = alpha, torch.cos(phi), torch.sin(phi)
            return [Rel("d_alpha_equals_wavelength_times_true_derivative", gk, d_alpha * lam, ntol=1e-6),
                    Rel("d_phi_over_alpha_equals_wavelength_times_true_derivative", gphi * a_s, d_phi * lam, ntol=1e-6),
                    Rel("cartesian_x", gx * a_s, (c * a_s * d_alpha - s * d_phi) * lam, ntol=1e-6),
                    Rel("cartesian_y", gy * a_s, (s * a_s * d_alpha + c * d_phi) * lam, ntol=1e-6)]
    return claim


def defocus_alias(keys):
    def claim(I):
        old = cp.__dict__.get("float")
        if I.mode == "sym":
            cp.float = lambda x: x                # float() of a symbolic value: identity (float32 rounding is outside)
        try:
            with I.patch_torch(cp):
                vals = {k: I.real("v_" + k, -3, 3) for k in keys}
                out = cp.standardize_aberration_coefs(vals)
                rels = []
                for k, v in vals.items():
                    canon = cp.POLAR_ALIASES.get(k, k)
                    want = -v if k == "defocus" else v
                    rels.append(Rel(f"alias[{k}->{canon}]", out[canon], want, ntol=1e-6))
                rels.append(Rel("only_canonical_keys", float(all(k in cp.POLAR_SYMBOLS for k in out)), 1.0))
                return rels
        finally:
            if I.mode == "sym":
                if old is None:
                    del cp.float
                else:
                    cp.float = old
    return claim


def validator_alias(keys):
    """validators.validate_aberration_coefficients: the same mapping, for every value incl. exactly 0"""
    import quantem.core.utils.validators as val

    def claim(I):
        old = val.__dict__.get("float")
        if I.mode == "sym":
            val.float = lambda x: x
        try:
            vals = {k: I.real("v_" + k, -3, 3) for k in keys}
            out = val.validate_aberration_coefficients(dict(vals))
            rels = []
            for k, v in vals.items():
                canon = cp.POLAR_ALIASES.get(k, k)
                rels.append(Rel(f"validator_alias[{k}->{canon}]", out[canon] if canon in out else 1e9, -v if k == "defocus" else v, ntol=1e-9))
            rels.append(Rel("only_canonical_keys", float(all(k in cp.POLAR_SYMBOLS for k in out)), 1.0))
            return rels
        finally:
            if I.mode == "sym":
                if old is None:
                    del val.float
                else:
                    val.float = old
    return claim


# coefficient sets that name magnitudes without their angles (the angle then defaults to 0)
NO_ANGLE_SETS = [["C10", "C12"], ["C21"], ["C23", "C30"], ["C12", "C34", "C45"], ["C10", "C30", "C50"], ["C56", "C52"]]


def cases(tier):
    out = []
    for names in NO_ANGLE_SETS:
        out.append((f"gradients[no angles:{'+'.join(names)}]", gradients(names), "QF_NRA"))
        out.append((f"surface_vs_basis[no angles:{'+'.join(names)}]", surface_vs_basis(names), "QF_NRA"))
    out.append(("validator_aliases[defocus,astigmatism,astigmatism_angle]", validator_alias(["defocus", "astigmatism", "astigmatism_angle"]), None))
    out.append(("validator_aliases[coma,coma_angle,Cs,C5,C10]", validator_alias(["coma", "coma_angle", "Cs", "C5", "C12"]), None))
    for n, names in ORDERS.items():
        out.append((f"surface_vs_basis[order{n}]", surface_vs_basis(names), "QF_NRA"))
        out.append((f"gradients[order{n}]", gradients(names), "QF_NRA"))
        out.append((f"roundtrip[order{n}]", roundtrip(names), "QF_NRA"))
    out.append(("basis_order[C30,C10,C12_a,C12_b,C21_a]", basis_order(["C30", "C10", "C12_a", "C12_b", "C21_a"]), "QF_NRA"))
    out.append(("basis_order[C56_b,C23_a,C10,C41_b,C34_a]", basis_order(["C56_b", "C23_a", "C10", "C41_b", "C34_a"]), "QF_NRA"))
    allnames = sum(ORDERS.values(), [])
    out.append(("surface_vs_basis[all25]", surface_vs_basis(allnames), "QF_NRA"))
    out.append(("gradients[all25]", gradients(allnames), "QF_NRA"))
    out.append(("roundtrip[orders1-3]", roundtrip(ORDERS[1] + ORDERS[2] + ORDERS[3]), "QF_NRA"))
    for lab, names in (("C10", ORDERS[1]), ("C12_a", ORDERS[1]), ("C12_b", ORDERS[1]), ("C21_b", ORDERS[2]), ("C30", ORDERS[3]),
                       ("C34_a", ORDERS[3]), ("C45_b", ORDERS[4]), ("C56_a", ORDERS[5])):
        out.append((f"merge_additive[{lab}]", merge_additive(names, lab), "QF_NRA"))
    # an update of lower order than the prior's highest order must leave the higher orders in place
    out.append(("merge_additive[C12_a into orders 1+3]", merge_additive(ORDERS[1] + ORDERS[3], "C12_a"), "QF_NRA"))
    out.append(("merge_additive[C10 into orders 1+2]", merge_additive(ORDERS[1] + ORDERS[2], "C10"), "QF_NRA"))
    out.append(("merge_additive[C21_a into orders 2+4]", merge_additive(ORDERS[2] + ORDERS[4], "C21_a"), "QF_NRA"))
    out.append(("aliases[defocus,astigmatism,astigmatism_angle]", defocus_alias(["defocus", "astigmatism", "astigmatism_angle"]), "QF_LRA"))
    out.append(("aliases[coma,coma_angle,Cs,C5]", defocus_alias(["coma", "coma_angle", "Cs", "C5"]), "QF_LRA"))
    out.append(("aliases[canonical]", defocus_alias(["C10", "C12", "phi12", "C30"]), "QF_LRA"))
    return out


for _n, _c, _ in cases("thorough"):
    register(PID, _n, _c)


def run(check, tier):
    check.add_functions("complex_probe.aberration_surface", "aberration_surface_polar_gradients", "aberration_surface_cartesian_gradients",
                        "aberration_surface_cartesian_basis", "polar_to_cartesian_aberrations", "cartesian_to_polar_aberrations",
                        "merge_aberration_coefficients", "parse_cartesian_aberration_label", "standardize_aberration_coefs",
                        "validators.validate_aberration_coefficients")
    check.bounds.update(symbolic="alpha >= 0, phi (angle atom), wavelength > 0, all 25 polar symbols (13 magnitudes in [-3,3], 12 angles)",
                        orders="1..5 separately and all 25 symbols together")
    check.assumptions += ["real arithmetic (float32 rounding of torch.tensor(v, float32) is outside)",
                          "cos/sin of integer combinations of angle atoms are expanded exactly (Chebyshev); atan2 is a fresh angle "
                          "with r cos = x, r sin = y"]
    check.outside += ["fit_aberrations_from_shifts (LAPACK lstsq / SVD)", "the ProbeBase.probe_params setter (not reached by this check)",
                      "_return_lateral_shifts"]
    check.engines.add("symnum + z3 " + __import__("z3").get_version_string())
    decide_many(check, [(n, c, dict(logic=lg, key=n.split("[")[0])) for n, c, lg in cases(tier)],
                timeout_s=120 if tier == "quick" else 600, validate=1 if tier == "quick" else 3)
