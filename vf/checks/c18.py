"""C18 centre-of-mass origin — engine S: the real torch (CenterOfMassOriginModel) and NumPy
(PtychographyDatasetRaster._set_intensities_com, fit_origin) code on symbolic positive intensities."""
import types

import numpy as np
import torch

import quantem.diffractive_imaging.dataset_models as dm
import quantem.diffractive_imaging.origin_models as om
import quantem.diffractive_imaging.ptycho_utils as pu

from ..sym.claims import Rel, decide_many, register
from ..sym.npx import is_sym, lift

TECHNIQUE = ("term-valued symbolic execution of the real COM code (torch via __torch_function__, NumPy via the np facade) "
             "on symbolic positive intensities and masks; equality with the intensity-weighted mean coordinate, "
             "batch-size independence, path independence, input immutability and integer-shift == roll decided by z3 (QF_NRA)")
PID = "C18"


def _oracle(I4):
    """(sum I*row / sum I, sum I*col / sum I) per pattern, written with explicit loops"""
    R, C, H, W = I4.shape
    out_r = np.empty((R, C), dtype=object)
    out_c = np.empty((R, C), dtype=object)
    for r in range(R):
        for c in range(C):
            tot = 0
            mr = 0
            mc = 0
            for i in range(H):
                for j in range(W):
                    v = I4[r, c, i, j]
                    tot = tot + v
                    mr = mr + v * i
                    mc = mc + v * j
            out_r[r, c] = mr / tot
            out_c[r, c] = mc / tot
    return out_r, out_c


def origin_model_claim(scan, det):
    def claim(I):
        with I.patch_torch(om):
            data = I.array("I", scan + det, lo=0.01, hi=1, positive=True)
            t = I.tensor("I", scan + det, lo=0.01, hi=1, positive=True) if False else None
            if I.mode == "sym":
                from ..sym.torchx import SymTensor
                tens = SymTensor(data)
            else:
                tens = torch.from_numpy(np.ascontiguousarray(data)).float()
            n = scan[0] * scan[1]
            want_r, want_c = _oracle(data)
            rels = []
            for bs in list(range(1, n + 1)) + [None]:
                ns = types.SimpleNamespace(dataset=types.SimpleNamespace(shape=scan + det), tensor=tens, device="cpu", num_dps=n)
                om.CenterOfMassOriginModel.calculate_origin(ns, bs)
                got = ns.origin_measured
                rels.append(Rel(f"row_then_column[batch={bs}]", [got[:, 0], got[:, 1]],
                                [list(want_r.reshape(-1)), list(want_c.reshape(-1))], ntol=1e-5))
            return rels
    return claim


def dataset_model_claim(scan, det, masked, vectorized):
    def claim(I):
        with I.patch(dm, pu):
            data = I.array("I", scan + det, lo=0.01, hi=1, positive=True)
            mask = I.array("m", det, lo=0.05, hi=1, positive=True) if masked else None
            work = data.copy()
            ns = types.SimpleNamespace(_verbose=False, roi_shape=det)
            dm.PtychographyDatasetRaster._set_intensities_com(ns, work, dp_mask=mask, fit_function="none",
                                                              vectorized_calculation=vectorized)
            eff = data * mask[None, None] if masked else data
            want_r, want_c = _oracle(eff)
            got_r, got_c = ns.com_measured
            return [Rel("returns_row_then_column", [got_r, got_c], [want_r, want_c], ntol=1e-5),
                    Rel("input_not_modified", work, data)]
    return claim


def constant_fit_claim(scan):
    def claim(I):
        with I.patch(pu):
            r = I.array("r", scan, lo=-3, hi=3)
            c = I.array("c", scan, lo=-3, hi=3)
            fr, fc, rr, rc = pu.fit_origin((r, c), fit_function="constant", mask=None)
            k = I.real("k", -3, 3)
            const = r * 0 + k
            kr, kc, _, _ = pu.fit_origin((const, const), fit_function="constant", mask=None)
            n = scan[0] * scan[1]
            return [Rel("constant_fit_returns_mean", [fr, fc], [r * 0 + r.sum() / n, c * 0 + c.sum() / n], ntol=1e-6),
                    Rel("constant_fit_is_identity_on_constant_origins", [kr, kc], [const, const], ntol=1e-6),
                    Rel("residuals", [rr, rc], [r - fr, c - fc], ntol=1e-6)]
    return claim


def shift_roll_claim(scan, det, origins):
    """integer fitted origins: shift_origin_to((0, 0)) == roll of every pattern by minus its origin"""
    def claim(I):
        with I.patch_torch(om):
            data = I.array("I", scan + det, lo=0.01, hi=1, positive=True)
            if I.mode == "sym":
                from ..sym.torchx import SymTensor
                tens = SymTensor(data)
            else:
                tens = torch.from_numpy(np.ascontiguousarray(data)).float()
            n = scan[0] * scan[1]
            ns = types.SimpleNamespace(dataset=types.SimpleNamespace(shape=scan + det), tensor=tens, device="cpu", num_dps=n,
                                       _origin_fitted=True, origin_fitted=torch.tensor(origins, dtype=torch.float))
            om.CenterOfMassOriginModel.shift_origin_to(ns, (0, 0), max_batch_size=None)
            got = ns.shifted_tensor
            want = np.empty(data.shape, dtype=object)
            flat = data.reshape((n,) + det)
            for k in range(n):
                want.reshape((n,) + det)[k] = np.roll(flat[k], (-origins[k][0], -origins[k][1]), axis=(0, 1))
            return [Rel("integer_origin_shift_is_roll", got, want, ntol=1e-5)]
    return claim


def cases(tier):
    out = []
    for scan, det in (((1, 2), (2, 3)), ((2, 2), (3, 2)), ((2, 3), (3, 3))):
        out.append((f"origin_model[{scan}x{det}]", origin_model_claim(scan, det), dict(logic="QF_NRA")))
        for masked in (False, True):
            for vec in (True, False):
                out.append((f"dataset_model[{scan}x{det};mask={masked};vectorized={vec}]",
                            dataset_model_claim(scan, det, masked, vec), dict(logic="QF_NRA")))
    out.append(("constant_fit[2x3]", constant_fit_claim((2, 3)), dict(logic="QF_NRA")))
    out.append(("constant_fit[1x2]", constant_fit_claim((1, 2)), dict(logic="QF_NRA")))
    for det in ((3, 3), (2, 3), (3, 2)):
        alls = [(a, b) for a in range(det[0]) for b in range(det[1])]
        for k in range(0, len(alls) - 1, 2):
            out.append((f"shift_roll[det={det};origins={alls[k]},{alls[k + 1]}]",
                        shift_roll_claim((1, 2), det, [list(alls[k]), list(alls[k + 1])]), dict(logic="QF_LRA")))
    # integer origins off the detector (set through the origin_fitted setter / force_*_origin): still the circular roll
    for det, pairs in (((3, 3), [((-1, -2), (4, 3)), ((3, -1), (-3, 5)), ((0, 3), (7, -4))]),
                       ((2, 3), [((-1, 0), (2, 4)), ((1, -3), (3, 3))])):
        for a, b in pairs:
            out.append((f"shift_roll_off_detector[det={det};origins={a},{b}]",
                        shift_roll_claim((1, 2), det, [list(a), list(b)]), dict(logic="QF_LRA")))
    return out


for _n, _c, _ in cases("thorough"):
    register(PID, _n, _c)


def run(check, tier):
    check.add_functions("CenterOfMassOriginModel.calculate_origin", "CenterOfMassOriginModel.shift_origin_to",
                        "PtychographyDatasetRaster._set_intensities_com (vectorised and looped paths)", "ptycho_utils.fit_origin(constant)",
                        "SimpleBatcher (unshuffled)")
    check.bounds.update(scan="1x2, 2x2, 2x3", detector="2x3, 3x2, 3x3 (non-square on purpose)", batch_sizes="1..num_patterns and None",
                        symbolic="all intensities in [0.01, 1], detector mask values in [0.05, 1], integer origins: every cell position")
    check.stubs.append("torch.nn.functional.grid_sample -> bilinear model evaluated at the concrete (integer) grid it receives")
    check.assumptions += ["real arithmetic; float32 grid coordinates within 1e-4 of an integer are that integer"]
    check.outside += ["plane / parabola fits (scipy curve_fit)", "bicubic mode", "non-integer origins", "ptycho_utils.get_com_2d"]
    decide_many(check, [(n, c, dict(o, key=n.split("[")[0])) for n, c, o in cases(tier)],
                timeout_s=90 if tier == "quick" else 400, validate=1 if tier == "quick" else 3)
