"""C03 Dataset coherence — engine X over the real Dataset classes."""
import random

from ..common import seed
from ..xh import run_jobs

TECHNIQUE = ("CrossHair/z3 symbolic execution of the real Dataset.__getitem__/pad/crop/bin/fourier_resample/copy and "
             "setters: per-axis index entries, Ellipsis position, operation kinds and small integer arguments are "
             "solver variables; NumPy indexing and a calibration model are the oracle; in-place vs copying variants "
             "compared on twins")
FILE = "harness/c03_dataset.py"
N_OPS = 12


def run(check, tier):
    check.add_functions("Dataset.__getitem__", "Dataset.pad", "Dataset.crop", "Dataset.bin", "Dataset.fourier_resample",
                        "Dataset.copy/_copy_custom_attributes", "origin/sampling/units setters", "validate_ndinfo", "validate_units",
                        "Dataset2d/3d/4d/4dstem.from_array", "Dataset._registry")
    check.bounds.update(ndim="1..5 (shapes (3,), (2,3), (1,3,2), (2,1,3,2), (2,2,1,2,3), incl. length-1 axes; Dataset4dstem for 4-D)",
                        index="per axis one of 12 entries (ints 0/-1, NumPy ints, 6 slices incl. steps 2, 3, -1, lists [0], [n-1,0]); tuple "
                              "length 1..ndim; Ellipsis at any position or absent; at most one list",
                        histories="<= 3 operations from 12 kinds with axis selector 0..2, argument 0..3 and in-place flag",
                        data="concrete arange data, float calibration")
    check.assumptions += ["NumPy's own indexing is the data oracle", "fourier_resample results of the two variants compared with atol 1e-9"]
    check.outside += ["slice start/stop beyond the menu (the ShapeArray stage of the design is not built)", "boolean / None indices",
                      "more than one list index", "0-d results", "histories longer than 3", "dtype preservation"]
    quick = tier == "quick"
    rnd = random.Random(seed())
    t = 600 if quick else 2400
    jobs = [dict(fn="indexing__reach", timeout=60), dict(fn="history__reach", timeout=60)]
    for ndim in (1, 2):
        jobs.append(dict(fn="indexing", fixed=dict(ndim=ndim, stem=False), timeout=t, key=f"indexing:ndim={ndim}"))
    k0s = list(range(12))
    for ndim in (3, 4, 5):
        for k0 in (sorted(rnd.sample(k0s[:10], 2) + [rnd.choice(k0s[10:])]) if quick else k0s):
            fixed = dict(ndim=ndim, k0=k0, stem=False)
            if ndim >= 4:
                fixed["k2"] = rnd.randrange(12)
            if ndim >= 4:
                fixed["k3"] = rnd.randrange(12)           # (free k1 and k3 together: ~2500 paths, does not fit the time-out)
            if ndim == 5:
                fixed["k4"] = rnd.randrange(12)
            jobs.append(dict(fn="indexing", fixed=fixed, timeout=t, key=f"indexing:ndim={ndim}"))
    for k0 in (rnd.sample(k0s, 2) if quick else k0s):
        jobs.append(dict(fn="indexing", fixed=dict(ndim=4, k0=k0, k2=rnd.randrange(12), k3=rnd.randrange(12), stem=True),
                         timeout=t, key="indexing:4dstem"))
    none = N_OPS
    for i1 in (False, True):          # split by the in-place flag: shorter jobs, better balance over the cores
        for ndim in (1, 2, 3, 4, 5):
            jobs.append(dict(fn="history", fixed=dict(ndim=ndim, stem=False, o2=none, o3=none, i1=i1), timeout=t, key=f"op:ndim={ndim}"))
        jobs.append(dict(fn="history", fixed=dict(ndim=4, stem=True, o2=none, o3=none, i1=i1), timeout=t, key="op:4dstem"))
    # a copying operation (possibly a no-op: same shape, zero pad, factor 1) followed by an in-place operation on its
    # result: the result must be a new object and the source must stay untouched
    for nd in ((2,) if quick else (2, 3)):
        for o1 in (4, 5, 6, 7, 8, 9, 10):
            jobs.append(dict(fn="history", fixed=dict(ndim=nd, stem=False, o1=o1, i1=False, a2=rnd.randrange(3), b2=rnd.randrange(4),
                                                      i2=True, o3=none), timeout=t, key=f"alias:ndim={nd}"))
    combos = [(nd, st, o1) for nd, st in ((2, False), (3, False), (4, True)) for o1 in range(N_OPS)]
    for nd, st, o1 in (rnd.sample(combos, 6) if quick else combos):
        fixed = dict(ndim=nd, stem=st, o1=o1, a2=rnd.randrange(3), b2=rnd.randrange(4), i2=bool(rnd.randrange(2)),
                     i1=bool(rnd.randrange(2)))
        if quick:
            fixed["o3"] = none
        else:
            # three operations: the second operation kind is pinned per job as well (o1 x o2 x o3 free is ~4000 paths per job)
            fixed.update(o2=rnd.randrange(N_OPS), a3=rnd.randrange(3), b3=rnd.randrange(4), i3=bool(rnd.randrange(2)))
        jobs.append(dict(fn="history", fixed=fixed, timeout=t, key=f"history:ndim={nd}"))
    run_jobs(check, FILE, jobs)
