"""C19 configuration store — engine X (CrossHair over the real config functions)."""
from ..xh import run_jobs

TECHNIQUE = ("symbolic execution of the real quantem.core.config functions with CrossHair/z3: "
             "operation, key and value selectors are solver variables, result compared with a "
             "dictionary reference model; counterexamples replayed on the real code")
FILE = "harness/c19_config.py"


def run(check, tier):
    check.add_functions("config.set.__init__", "config.set._assign", "config.set.__enter__/__exit__",
                        "config.get", "config.update", "config.merge", "config.update_defaults",
                        "config.refresh", "config.canonical_name", "config.check_key_val",
                        "config.validate_device", "config.collect (empty directory)")
    check.bounds.update(operations="<= 2 (quick) / <= 3 (thorough) per history, 5 operation kinds",
                        keys="16 keys: 4 top-level segments x (flat | 3 nested segments) with '-'/'_' twins; 7 keys up to three levels deep for the "
                             "defaults/refresh aliasing harness; with-blocks writing two entries (and one of them twice via the keyword form)",
                        values="unbounded symbolic int", device_strings="symbolic str of len <= 2, menu of 9 malformed strings, int index in [-6, 12]")
    check.assumptions += [
        "no user yaml files (collect() reads an empty directory); single thread",
        "CUDA and MPS unavailable (true in this sandbox)",
        "update_defaults on a nested key whose '-'/'_' spelling differs from the stored one is outside the claim",
        "CrossHair models Python int exactly; dict/str operations are executed on CrossHair's symbolic containers",
    ]
    check.outside += ["histories longer than 3 operations (thorough: a seeded sample of 80 of the 500 three-operation groups)", "keys mixing '-' and '_' in one segment",
                      "yaml files / environment variables", "threads"]
    t = 90 if tier == "quick" else 400
    jobs = []
    for o1 in range(5):
        for o2 in range(5):
            jobs.append(dict(fn="seq2", fixed=dict(o1=o1, o2=o2), timeout=t, key="history2"))
    jobs.append(dict(fn="seq2__reach", timeout=30))
    for i1 in range(4):
        for j1 in range(4):
            jobs.append(dict(fn="defaults_refresh", fixed=dict(i1=i1, j1=j1), timeout=t * 2,
                             key="defaults_refresh"))
    jobs.append(dict(fn="context_restore", timeout=t, key="context_manager_restore"))
    jobs.append(dict(fn="context_restore__reach", timeout=30))
    for k1 in range(7):
        jobs.append(dict(fn="deep_defaults", fixed=dict(k1=k1), timeout=t * 2, key="deep_defaults_refresh"))
    for form in range(4):
        for i1 in range(4):
            jobs.append(dict(fn="context_multi", fixed=dict(form=form, i1=i1), timeout=t * 2, key="context_manager_multi_write"))
    jobs.append(dict(fn="bad_device", timeout=t, key="bad_device"))
    jobs.append(dict(fn="bad_device__reach", timeout=30))
    jobs.append(dict(fn="bad_device_str", timeout=t * 2, key="bad_device_str"))
    jobs += [dict(fn="bad_device_cpu_like", fixed=dict(side=sd), timeout=t * 2, key="bad_device_cpu_like") for sd in (0, 1)]
    jobs.append(dict(fn="bad_device_cpu_index", timeout=t * 2, key="bad_device_cpu_like"))
    jobs.append(dict(fn="bad_device_cpu_like__reach", timeout=60))
    jobs.append(dict(fn="good_device", timeout=t, key="good_device"))
    # three operations, always: set, then two update_defaults on overlapping keys (scalar and mapping defaults for one key; this
    # group found the TypeError repaired by b519c8b)
    for i1 in range(4):
        jobs.append(dict(fn="seq3", fixed=dict(o1=0, o2=2, o3=2, i1=i1), timeout=max(t, 400), key="history3"))
    if tier == "thorough":
        # three-operation histories: 500 (o1, o2, o3, first key) groups of ~3 CPU-minutes each; a seeded sample of 80 keeps the
        # tier under half an hour on 16 cores (VERIF_SEED selects another sample)
        import random
        from ..common import seed
        groups = [(o1, o2, o3, i1) for o1 in range(5) for o2 in range(5) for o3 in range(5) for i1 in range(4)]
        for o1, o2, o3, i1 in random.Random(seed()).sample(groups, 80):
            jobs.append(dict(fn="seq3", fixed=dict(o1=o1, o2=o2, o3=o3, i1=i1), timeout=900, key="history3"))
    run_jobs(check, FILE, jobs)
