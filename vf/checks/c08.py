"""C08 failed saves / write-once — engine X, symbolic fault position."""
import random

from ..common import seed
from ..xh import run_jobs

TECHNIQUE = ("CrossHair/z3 symbolic execution of the real AutoSerialize.save()/load() on an in-memory file-system "
             "model whose k-th write operation raises; the fault index k is a solver variable; post-state "
             "assertion (absent / unreadable / complete earlier object, write-once untouched, no other path "
             "altered); counterexamples replayed on the real file system with the fault injected by mock")
FILE = "harness/c08_failed_save.py"
STORES = ["zip", "dir", "auto(.zip)", "auto(dir)", "zip(path without .zip)"]


def run(check, tier):
    check.add_functions("AutoSerialize.save (existence check, mode handling, store branches, write_skip_metadata, zip assembly)",
                        "_recursive_save", "_serialize_value", "_serialize_container", "_write_ndarray", "_write_bytes",
                        "serialize.load", "_recursive_load")
    check.bounds.update(fault_index="symbolic k in 0..90 (0 = no fault; a graph performs <= ~60 write operations)",
                        stores="zip, dir, auto by extension, zip with a suffix-less path (target <path>.zip, unrelated object at <path>)", modes="'w' and 'o'",
                        pre_state="no target / complete object of the same kind / complete object of the other kind at the target path",
                        graphs="3 object shapes (flat; nested object + containers; tensor + empty array + set), "
                               "optional unserialisable attribute at any of 7 positions; symbolic int payload")
    check.stubs.append("os/shutil/tempfile/zarr/LocalStore/ZipFile of quantem.core.io.serialize -> vf/stubs/memfs.py with fault counter")
    check.assumptions += [
        "fault positions are the serializer's value/array/byte/group writes, the zip assembly and the final rename "
        "(as the property quantifies); removals and clean-up calls are not made to fail; the failure is an OSError or a KeyboardInterrupt",
        "single process; a write either happens completely or raises (no torn writes, no crash without exception)",
        "the store model numbers writes slightly differently from real zarr; the replay scans the real save's write operations for the reproducing index",
    ]
    check.outside += ["power loss / process kill", "concurrent writers", "graphs other than the three shapes"]
    quick = tier == "quick"
    rnd = random.Random(seed())
    t = 150 if quick else 900
    jobs = [dict(fn="failed_save__reach", timeout=60)]

    def key(a):
        # k, store, overwrite, pre, shape, bad, tag
        return f"{STORES[a[1]]}:mode={'o' if a[2] else 'w'}:pre={a[3]}:{'unserialisable' if a[5] else 'fault'}"
    for store in range(5):
        for overwrite in (False, True):
            for pre in range(3):
                shapes = [rnd.randrange(3)] if quick else [0, 1, 2]
                for shape in shapes:
                    jobs.append(dict(fn="failed_save", fixed=dict(store=store, overwrite=overwrite, pre=pre, shape=shape, bad=0),
                                     timeout=t, key_fn=key))
    for store in (0, 1):
        for bad in range(1, 8):
            if quick and bad not in (1, 2, 5):
                continue
            jobs.append(dict(fn="failed_save", fixed=dict(store=store, overwrite=bool(bad % 2), pre=bad % 3, shape=bad % 3,
                                                          bad=bad, k_in=[0] if quick else list(range(0, 91))),
                             timeout=t, key_fn=key))
    # the failure is a KeyboardInterrupt (not an Exception) at any write operation
    for store in (0, 1, 4):
        for overwrite in (False, True):
            jobs.append(dict(fn="failed_save", fixed=dict(store=store, overwrite=overwrite, pre=rnd.randrange(3), shape=rnd.randrange(3), bad=0,
                                                          interrupt=1), timeout=t, key_fn=lambda a: key(a) + ":interrupt"))
    run_jobs(check, FILE, jobs)
