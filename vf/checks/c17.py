"""C17 phase unwrapping — compositional: (1) _find_wrap returns the difference of the wrap counts for every
neighbour pair of a smooth field (engine S, mixed int/real), (2) one UnionFindPhase.union step re-establishes
the offset invariant from *any* forest on <= 4 nodes (engine S on the real class, forests enumerated),
(3) _build_edges yields exactly the 4-neighbour pairs inside the mask (engine X), (4) whole-algorithm runs on
tiny grids with all feasible edge orders explored by forking (engine S).
Composition (pen and paper): 1-3 give, by induction over the edge list in any processing order, output =
true phase + one constant per connected component."""
import itertools
import math
import random
import types
from fractions import Fraction

import numpy as np
import torch
import z3

import quantem.core.utils.imaging_utils as iu

from ..common import seed
from ..sym import core
from ..sym.claims import Rel, decide_many, register
from ..sym.core import S
from ..xh import run_jobs

TECHNIQUE = ("compositional solver-based checking of the real unwrapping code: _find_wrap on symbolic wrapped phases and integer wrap "
             "counts (z3, mixed int/real), UnionFindPhase.union / _final_offsets executed on every forest with symbolic offsets "
             "(inductive step of the offset invariant), _build_edges structure under CrossHair, and whole-algorithm symbolic runs on "
             "tiny grids with edge orders explored by forking")
PID = "C17"
P = Fraction(math.pi)


def _int(I, name, lo=-3, hi=3):
    """a symbolic integer (as a real term tied to a z3 Int)"""
    if I.mode != "sym":
        v = I.values.get(name)
        if v is None:
            v = float(I.rnd.randint(lo, hi))
            I.values[name] = v
        return float(round(v))
    r = I.real(name, lo, hi)
    k = z3.Int(name + "#int")
    I.ctx.side.append(core._z(r.re) == z3.ToReal(k))
    return r


def find_wrap_claim():
    def claim(I):
        with I.patch_torch(iu):
            px = I.real("phi_x", -math.pi, math.pi)
            py = I.real("phi_y", -math.pi, math.pi)
            kx, ky = _int(I, "k_x"), _int(I, "k_y")
            if I.mode == "sym":
                I.assume(px > -math.pi)
                I.assume(py > -math.pi)
                d = (px + kx * (2 * math.pi)) - (py + ky * (2 * math.pi))
                I.assume(d < math.pi)
                I.assume(d > -math.pi)
            else:
                # numeric stand-in: a smooth pair and its wrapped version
                a = I.rnd.uniform(-9, 9)
                b = a + I.rnd.uniform(-3.0, 3.0)
                kx, ky = float(round(a / (2 * math.pi))), float(round(b / (2 * math.pi)))
                px, py = a - 2 * math.pi * kx, b - 2 * math.pi * ky
                I.values.update({"phi_x": px, "phi_y": py, "k_x": kx, "k_y": ky})
            inc = iu._find_wrap(I.tscalar(px), I.tscalar(py))
            return [Rel("find_wrap_equals_difference_of_wrap_counts", inc, kx - ky, ntol=1e-9)]
    return claim


def forests(n):
    """all rooted forests on n labelled nodes as parent arrays"""
    out = []
    for parent in itertools.product(range(n), repeat=n):
        ok = True
        for i in range(n):
            seen, j = set(), i
            while parent[j] != j:
                if j in seen:
                    ok = False
                    break
                seen.add(j)
                j = parent[j]
            if not ok:
                break
        if ok:
            out.append(parent)
    return out


def union_claim(parent, ranks, x, y):
    n = len(parent)

    def root(i):
        while parent[i] != i:
            i = parent[i]
        return i

    def claim(I):
        with I.patch_torch(iu):
            uf = iu.UnionFindPhase.__new__(iu.UnionFindPhase)
            uf.parent = torch.tensor(parent)
            uf.rank = torch.tensor(ranks, dtype=torch.int32)
            off = [I.real(f"off{i}", -6, 6) if parent[i] != i else 0.0 for i in range(n)]
            k = [_int(I, f"k{i}", -4, 4) for i in range(n)]
            if I.mode == "sym":
                from ..sym.torchx import SymTensor
                uf.offset = SymTensor(np.array([core.to_S(o) for o in off] + [None], dtype=object)[:-1])
            else:
                uf.offset = torch.tensor([float(o) for o in off], dtype=torch.float64)

            def pot(i):
                tot = 0.0
                while parent[i] != i:
                    tot = tot + off[i]
                    i = parent[i]
                return tot
            # invariant before the step: potential(i) - k(i) is constant on each tree
            c = {}
            for i in range(n):
                r = root(i)
                if r in c:
                    if I.mode == "sym":
                        I.assume(pot(i) - k[i] == c[r])
                    else:
                        # numeric mode: choose k so that the invariant holds
                        pass
                else:
                    c[r] = pot(i) - k[i]
            if I.mode != "sym":
                # make the numeric stand-in satisfy the invariant: k(i) := potential(i) - potential-offset of its root class
                base = {r: float(I.rnd.randint(-2, 2)) for r in c}
                for i in range(n):
                    k[i] = pot(i) - base[root(i)]
                    I.values[f"k{i}"] = k[i]
            inc = k[x] - k[y]
            iu.UnionFindPhase.union(uf, x, y, inc)
            incs = iu._final_offsets(uf)
            rels = []
            merged = [i for i in range(n) if root(i) in (root(x), root(y))]
            for i in merged[1:]:
                rels.append(Rel("merged_tree_invariant", incs[i] - k[i], incs[merged[0]] - k[merged[0]], ntol=1e-9))
            for r0 in c:
                if r0 in (root(x), root(y)):
                    continue
                grp = [i for i in range(n) if root(i) == r0]
                for i in grp[1:]:
                    rels.append(Rel("other_trees_untouched", incs[i] - k[i], incs[grp[0]] - k[grp[0]], ntol=1e-9))
            if not rels:
                rels.append(Rel("trivial", 0.0, 0.0))
            return rels
    return claim


def whole_run_claim(shape, wrap):
    H, W = shape
    n = H * W

    def claim(I):
        with I.patch_torch(iu):
            phis, ks = [], []
            for i in range(n):
                phis.append(I.real(f"phi{i}", -math.pi, math.pi))
                ks.append(_int(I, f"k{i}", -2, 2))
            if I.mode == "sym":
                psi = [phis[i] + ks[i] * (2 * math.pi) for i in range(n)]
                for i in range(n):
                    I.assume(phis[i] > -math.pi)
                for r in range(H):
                    for c in range(W):
                        for dr, dc in ((0, 1), (1, 0)):
                            rr, cc = r + dr, c + dc
                            if wrap:
                                rr, cc = rr % H, cc % W
                            elif rr >= H or cc >= W:
                                continue
                            d = psi[r * W + c] - psi[rr * W + cc]
                            I.assume(d < math.pi)
                            I.assume(d > -math.pi)
                from ..sym.torchx import SymTensor
                phi_t = SymTensor(np.array(phis + [None], dtype=object)[:-1].reshape(H, W))
            else:
                base = I.rnd.uniform(-4, 4)
                field = [base + 0.9 * (i % W) + 0.7 * (i // W) + I.rnd.uniform(-0.4, 0.4) for i in range(n)]
                psi = field
                for i in range(n):
                    kk = float(round(field[i] / (2 * math.pi)))
                    I.values[f"k{i}"] = kk
                    I.values[f"phi{i}"] = field[i] - 2 * math.pi * kk
                phi_t = torch.tensor([I.values[f"phi{i}"] for i in range(n)], dtype=torch.float64).reshape(H, W)
            out = iu._unwrap_phase_2d_torch_reliability_sorting(phi_t, None, wrap_around=wrap)
            flat = out.reshape(-1)
            rels = []
            for i in range(1, n):
                rels.append(Rel("output_equals_true_phase_up_to_one_constant", flat[i] - psi[i], flat[0] - psi[0], tol=1e-9, ntol=1e-5))
            return rels
    return claim


class _AngleStub:
    """the module's torch with angle(<the overlap values>) answering the symbolic wrapped phases. The overlap values themselves are
    a concrete stand-in: code that inspects them in another way sees that stand-in, and a counterexample obtained so is only reported
    if it reproduces with consistent real data (replay)"""

    def __init__(self, inner, data, phases):
        self._inner, self._data, self._phases = inner, data, phases

    def __getattr__(self, name):
        return getattr(self._inner, name)

    def angle(self, x):
        if x is self._data:
            return self._phases
        return self._inner.angle(x)


def wrapper_claim(grid, member, two_pass):
    """unwrap_bf_overlap_phase_torch on a detector grid `grid` whose bright-field pixels are all pixels and whose overlap region is
    `member` (0/1 per pixel, row-major): the returned phases equal the smooth field up to one constant on the region"""
    import quantem.diffractive_imaging.direct_ptycho_utils as dpu
    H, W = grid
    n = H * W
    idx = [i for i in range(n) if member[i]]

    def claim(I):
        with I.patch_torch(iu, dpu):
            phis, ks = {}, {}
            for i in idx:
                phis[i] = I.real(f"phi{i}", -math.pi, math.pi)
                ks[i] = _int(I, f"k{i}", -2, 2)
            bf_mask = torch.ones(grid, dtype=torch.bool)
            mask_bf = torch.tensor([bool(m) for m in member])
            if I.mode == "sym":
                psi = {i: phis[i] + ks[i] * (2 * math.pi) for i in idx}
                for i in idx:
                    I.assume(phis[i] > -math.pi)
                for i in idx:
                    r, c = divmod(i, W)
                    for rr, cc in ((r, (c + 1) % W), ((r + 1) % H, c)):
                        j = rr * W + cc
                        if j != i and member[j]:
                            d = psi[i] - psi[j]
                            I.assume(d < math.pi)
                            I.assume(d > -math.pi)
                from ..sym.torchx import SymTensor
                vals = [phis[i] if member[i] else core.to_S(Fraction(1, 4)) for i in range(n)]
                ph = SymTensor(np.array(vals + [None], dtype=object)[:-1])
                data = torch.ones(n, dtype=torch.complex64)
                saved = dpu.torch
                dpu.torch = _AngleStub(saved, data, ph)
                try:
                    out = dpu.unwrap_bf_overlap_phase_torch(data, mask_bf, bf_mask, two_pass=two_pass)
                finally:
                    dpu.torch = saved
            else:
                base = I.rnd.uniform(-4, 4)
                field = {i: base + 0.5 * (i % W) + 0.4 * (i // W) + I.rnd.uniform(-0.3, 0.3) for i in idx}
                psi = field
                ang = []
                for i in range(n):
                    if member[i]:
                        kk = float(round(field[i] / (2 * math.pi)))
                        I.values[f"k{i}"] = kk
                        I.values[f"phi{i}"] = field[i] - 2 * math.pi * kk
                        ang.append(I.values[f"phi{i}"])
                    else:
                        ang.append(0.25)
                data = torch.polar(torch.ones(n, dtype=torch.float32), torch.tensor(ang, dtype=torch.float32))
                out = dpu.unwrap_bf_overlap_phase_torch(data, mask_bf, bf_mask, two_pass=two_pass)
            rels = []
            for i in idx[1:]:
                rels.append(Rel("overlap_phase_equals_true_phase_up_to_one_constant", out[i] - psi[i], out[idx[0]] - psi[idx[0]], tol=1e-9, ntol=1e-4))
            return rels
    return claim


def cases(tier):
    rnd = random.Random(seed())
    quick = tier == "quick"
    out = [("find_wrap", find_wrap_claim(), dict())]
    allc = []
    for n in (1, 2, 3, 4):
        fs = forests(n)
        for parent in fs:
            roots = [i for i in range(n) if parent[i] == i]
            for x in range(n):
                for y in range(n):
                    for rk in ((0, 0), (0, 1), (1, 0)):
                        ranks = [0] * n
                        rx, ry = x, y
                        while parent[rx] != rx:
                            rx = parent[rx]
                        while parent[ry] != ry:
                            ry = parent[ry]
                        ranks[rx], ranks[ry] = rk[0], (rk[1] if ry != rx else rk[0])
                        allc.append((n, parent, tuple(ranks), x, y))
    small = [c for c in allc if c[0] <= 3]
    big = [c for c in allc if c[0] == 4]
    chosen = small + (rnd.sample(big, 150) if quick else big)
    # group the union obligations into batches per process
    for b in range(0, len(chosen), 40):
        batch = chosen[b:b + 40]
        out.append((f"union_step[batch {b // 40}: {len(batch)} (forest, x, y, rank) cases]", _batch(batch), dict()))
    out.append(("whole_run[1x3;bounded]", whole_run_claim((1, 3), False), dict(max_paths=64)))
    out.append(("whole_run[1x2;bounded]", whole_run_claim((1, 2), False), dict(max_paths=64)))
    # (2x2 and periodic grids as one symbolic run did not finish within 15 minutes: they rest on the composition)
    # the masked-embedding wrapper on a 1x3 detector grid with a 2-pixel overlap region (a 3-pixel region did not finish in 25 min)
    out.append(("bf_overlap_wrapper[1x3;region 2 px;single pass]", wrapper_claim((1, 3), (1, 1, 0), False), dict(max_paths=256)))
    if not quick:
        out.append(("bf_overlap_wrapper[1x3;region 2 px;two_pass]", wrapper_claim((1, 3), (1, 1, 0), True), dict(max_paths=256)))
        out.append(("bf_overlap_wrapper[3x1;region 2 px;single pass]", wrapper_claim((3, 1), (0, 1, 1), False), dict(max_paths=256)))
    return out


def _batch(batch):
    claims = [(f"n{n}:{parent}:r{ranks}:x{x}y{y}", union_claim(parent, ranks, x, y)) for n, parent, ranks, x, y in batch]

    def claim(I):
        rels = []
        for j, (nm, c) in enumerate(claims):
            sub = _Sub(I, f"c{j}.")
            for r in c(sub):
                r.label = "union_reestablishes_offset_invariant"
                rels.append(r)
        return rels
    return claim


class _Sub:
    """namespaces the inputs of several small claims decided in one process"""

    def __init__(self, I, prefix):
        self.I, self.p = I, prefix
        self.mode, self.ctx, self.rnd, self.values = I.mode, I.ctx, I.rnd, _Prefixed(I.values, prefix)

    def real(self, name, *a, **k):
        return self.I.real(self.p + name, *a, **k)

    def assume(self, c):
        self.I.assume(c)

    def patch_torch(self, *m):
        return self.I.patch_torch(*m)

    def tscalar(self, x):
        return self.I.tscalar(x)


class _Prefixed:
    def __init__(self, d, p):
        self.d, self.p = d, p

    def get(self, k, default=None):
        return self.d.get(self.p + k, default)

    def __setitem__(self, k, v):
        self.d[self.p + k] = v

    def __getitem__(self, k):
        return self.d[self.p + k]

    def update(self, other):
        for k, v in other.items():
            self[k] = v


for _n, _c, _ in cases("thorough"):
    register(PID, _n, _c)


def run(check, tier):
    check.add_functions("imaging_utils._find_wrap", "_wrap_to_pi", "UnionFindPhase.find_root_and_offset/union", "_final_offsets",
                        "_build_edges", "_pixel_reliability", "_unwrap_phase_2d_torch_reliability_sorting", "unwrap_phase_2d_torch",
                        "direct_ptycho_utils.unwrap_bf_overlap_phase_torch")
    check.bounds.update(find_wrap="all wrapped phases in (-pi, pi], wrap counts in -3..3, neighbour difference < pi",
                        union_step="every rooted forest on <= 3 nodes (quick: + 150 seeded of the forests on 4 nodes; thorough: all 125), every "
                                   "(x, y), three rank relations, symbolic offsets satisfying the invariant",
                        edges="grids up to 3x3, every mask, wrap-around on/off (engine X)",
                        whole_run="1x2 and 1x3 bounded grids, all feasible edge orders by forking",
                        wrapper="unwrap_bf_overlap_phase_torch: 1x3 detector grid, 2-pixel region, single pass (thorough: two_pass, 3x1)")
    check.assumptions += ["pi is the float math.pi taken as an exact rational, in the code and in the definition of the wrapped input alike",
                          "composition of obligations 1-3 into the whole-grid statement is a pen-and-paper induction (stated, not queried)"]
    check.outside += ["the Poisson method (approximate by construction)", "unwrap_bf_overlap_phase_torch beyond a 2-pixel overlap region on a 3-pixel detector "
                      "grid (torch.angle is stubbed: the wrapped phases are the symbolic inputs)", "float32 offsets", "grids beyond 1x3 as a "
                      "single symbolic run (covered only through the compositional obligations)"]
    decide_many(check, [(n, c, dict(o, key=n.split("[")[0])) for n, c, o in cases(tier)],
                timeout_s=120 if tier == "quick" else 600, validate=1, hard_timeout_s=400 if tier == "quick" else 2000)
    quick = tier == "quick"
    jobs = [dict(fn="edges__reach", timeout=60), dict(fn="edges_after_other_call__reach", timeout=60)]
    for sh in range(8):
        for wrap in (False, True):
            jobs.append(dict(fn="edges", fixed=dict(shape_sel=sh, wrap=wrap), timeout=300 if quick else 1500, key="edge_structure"))
            jobs.append(dict(fn="edges_after_other_call", fixed=dict(shape_sel=sh, wrap=wrap), timeout=400 if quick else 1500,
                             key="edge_structure_after_other_call"))
    run_jobs(check, "harness/c17_edges.py", jobs)
