"""C04 direct ptychography — engine S: the real DirectPtychography._preprocess / reconstruct run on a
symbolic bright-field stack (all probe-side quantities are concrete float tensors computed by the real code);
every claim is linear in the stack symbols, so the queries are QF_LRA with a float tolerance."""
import math
import warnings

import numpy as np
import torch

import quantem.diffractive_imaging.direct_ptychography as dpm
from quantem.core.datastructures import Dataset2d, Dataset3d
from quantem.diffractive_imaging.complex_probe import evaluate_probe, polar_coordinates, spatial_frequencies

from ..sym.claims import Rel, decide_many, register

TECHNIQUE = ("term-valued symbolic execution of the real DirectPtychography._preprocess/reconstruct (torch via __torch_function__) on a "
             "symbolic bright-field stack; batch invariance, linearity, complementary-mask recombination and the analytic parallax "
             "case decided by z3 (QF_LRA, tolerance for float32 probe-side constants)")
PID = "C04"
KERNELS = ["ssb", "obf", "mf", "prlx", "icom"]
MASKS = {"5px": [(0, 0), (0, 1), (1, 0), (0, 3), (3, 0)], "4px": [(0, 0), (0, 1), (1, 0), (3, 3)], "3px": [(0, 0), (0, 3), (1, 0)]}
TOL = 2e-5


def _mask(pixels):
    m = np.zeros((4, 4), bool)
    for p in pixels:
        m[p] = True
    return m


def _make(I, mask, scan=(4, 4), aberr=None, rotation=0.0, name="x", stack=None):
    """a real DirectPtychography instance (built on a concrete stand-in stack), then the symbolic stack is put in place and the
    real _preprocess is run on it"""
    nbf = int(mask.sum())
    vbf = Dataset3d.from_array(np.zeros((nbf,) + scan, dtype=np.float32), sampling=[1, 5.0, 5.0], units=["index", "A", "A"])
    bfm = Dataset2d.from_array(mask, sampling=[0.05, 0.05], units=["A^-1", "A^-1"])
    with warnings.catch_warnings():
        warnings.simplefilter("ignore")
        dp = dpm.DirectPtychography.from_virtual_bfs(vbf, bfm, energy=80e3, rotation_angle=rotation, aberration_coefs=dict(aberr or {}),
                                                     semiangle_cutoff=4.0, soft_edges=False, crop_bf_mask=False, verbose=0)
    x = stack if stack is not None else I.tensor(name, (nbf,) + scan, lo=-1, hi=1)
    if I.mode != "sym" and stack is None:
        x = x.float()
    dp._vbf_stack = x
    dp._preprocess()
    return dp, x


class _patched:
    """module globals of direct_ptychography for a symbolic run"""

    def __init__(self, I):
        self.I = I

    def __enter__(self):
        if self.I.mode != "sym":
            return self
        from ..sym.torchx import SymTensor
        self.cm = self.I.patch_torch(dpm)
        self.cm.__enter__()
        self.old = dpm.validate_tensor
        dpm.validate_tensor = lambda v, *a, **k: v if isinstance(v, SymTensor) else self.old(v, *a, **k)
        return self

    def __exit__(self, *a):
        if self.I.mode != "sym":
            return False
        dpm.validate_tensor = self.old
        self.cm.__exit__(*a)
        return False


def _recon(dp, kernel, **kw):
    with warnings.catch_warnings():
        warnings.simplefilter("ignore")
        dp.reconstruct(deconvolution_kernel=kernel, verbose=0, **kw)
    return dp._corrected_stack


def batch_claim(kernel, mask_name, up=1, aberr=None, lowpass=None, scan=(4, 4), rotation=0.0):
    mask = _mask(MASKS[mask_name])

    def claim(I):
        with _patched(I):
            dp, x = _make(I, mask, aberr=aberr, scan=scan, rotation=rotation)
            nbf = int(mask.sum())
            kw = dict(upsampling_factor=up, parallax_flip_phase=False, q_lowpass=lowpass)
            full = _recon(dp, kernel, max_batch_size=nbf, **kw)
            full = full.clone() if hasattr(full, "clone") else full
            rels = []
            for b in range(1, nbf):
                out = _recon(dp, kernel, max_batch_size=b, **kw)
                rels.append(Rel(f"batch_size_{b}_equals_single_batch", out, full, tol=TOL, ntol=1e-4))
            return rels
    return claim


def linear_claim(kernel, mask_name, aberr=None):
    mask = _mask(MASKS[mask_name])

    def claim(I):
        with _patched(I):
            dpx, x = _make(I, mask, aberr=aberr, name="x")
            dpy, y = _make(I, mask, aberr=aberr, name="y")
            dps, _ = _make(I, mask, aberr=aberr, stack=x + y)
            dpl, _ = _make(I, mask, aberr=aberr, stack=x * 2.5)
            kw = dict(parallax_flip_phase=False)
            fx, fy, fs, fl = (_recon(d, kernel, **kw) for d in (dpx, dpy, dps, dpl))
            return [Rel("additive", fs, fx + fy, tol=TOL, ntol=1e-4), Rel("homogeneous", fl, fx * 2.5, tol=TOL, ntol=1e-4)]
    return claim


def _bf_weight(dp, mask):
    kxa, kya = spatial_frequencies(dp.gpts, dp.sampling, rotation_angle=dp.rotation_angle, device="cpu")
    k, phi = polar_coordinates(kxa, kya)
    probe = evaluate_probe(k * dp.wavelength, phi, dp.semiangle_cutoff, dp.angular_sampling, dp.wavelength,
                           aberration_coefs=dp.hyperparameter_state.current_aberrations(None))
    return float(probe[torch.as_tensor(mask)].abs().square().sum())


def submask_claim(kernel, mask_name, split):
    mask = _mask(MASKS[mask_name])
    pix = MASKS[mask_name]
    part_a = _mask([pix[i] for i in split])
    part_b = _mask([p for i, p in enumerate(pix) if i not in split])

    def claim(I):
        with _patched(I):
            dp, x = _make(I, mask)
            kw = dict(parallax_flip_phase=False)
            full = _recon(dp, kernel, **kw).sum(dim=0) * _bf_weight(dp, mask)
            a = _recon(dp, kernel, bf_mask=part_a, **kw).sum(dim=0) * _bf_weight(dp, part_a)
            b = _recon(dp, kernel, bf_mask=part_b, **kw).sum(dim=0) * _bf_weight(dp, part_b)
            return [Rel("weighted_submask_reconstructions_sum_to_full_mask", a + b, full, tol=TOL, ntol=1e-4)]
    return claim


def alias_claim(alias, canonical, mask_name):
    """every documented spelling of a kernel gives the reconstruction of its canonical name"""
    mask = _mask(MASKS[mask_name])

    def claim(I):
        with _patched(I):
            dp, x = _make(I, mask, aberr={"C10": 50.0})
            kw = dict(parallax_flip_phase=False, max_batch_size=2)
            want = _recon(dp, canonical, **kw)
            want = want.clone() if hasattr(want, "clone") else want
            got = _recon(dp, alias, **kw)
            return [Rel("alias_equals_canonical_kernel", got, want, tol=TOL, ntol=1e-5)]
    return claim


ALIASES = {"single-sideband": "ssb", "acbf": "ssb", "aberration-corrected-bright-field": "ssb", "optimum-bright-field": "obf",
           "matched-filter": "mf", "parallax": "prlx", "tcbf": "prlx", "tilt-corrected-bright-field": "prlx", "center-of-mass": "icom"}


def parallax_plain_claim(mask_name, scan=(4, 4)):
    mask = _mask(MASKS[mask_name])

    def claim(I):
        with _patched(I):
            dp, x = _make(I, mask, scan=scan)
            out = _recon(dp, "prlx", parallax_flip_phase=False).sum(dim=0)
            nbf = int(mask.sum())
            w = _bf_weight(dp, mask)
            acc = 0
            for i in range(nbf):
                acc = acc + (x[i] - x[i].mean())
            return [Rel("parallax_equals_sum_of_mean_subtracted_images_over_aperture_weight", out, acc / w, tol=TOL, ntol=1e-4)]
    return claim


def _geometric_shifts(dp, mask):
    """grad chi(k_i) / 2 pi at the bright-field pixels, by central differences of the real aberration *surface* in float64 (exact
    for the quadratic defocus / astigmatism surface) - independent of the gradient routines the reconstruction itself calls"""
    from quantem.diffractive_imaging import complex_probe as cp
    kx, ky = cp.spatial_frequencies(dp.gpts, dp.sampling, rotation_angle=dp.rotation_angle)
    kx, ky = kx.double()[torch.as_tensor(mask)], ky.double()[torch.as_tensor(mask)]
    coefs = {k: float(v) for k, v in dp.hyperparameter_state.current_aberrations(None).items()}
    lam = float(dp.wavelength)

    def chi(ax, ay):
        return cp.aberration_surface(torch.sqrt(ax * ax + ay * ay) * lam, torch.arctan2(ay, ax), lam, coefs)
    h = 1e-3
    gx = (chi(kx + h, ky) - chi(kx - h, ky)) / (2 * h)
    gy = (chi(kx, ky + h) - chi(kx, ky - h)) / (2 * h)
    fd = (torch.stack((gx, gy), -1) / (2 * np.pi)).numpy()
    return fd


def parallax_shift_claim(mask_name, aberr, rotation=0.0):
    """with defocus / astigmatism the parallax reconstruction is the same sum after translating image i by the geometric
    shift grad chi(k_i) / 2 pi; the translation is written here independently as an explicit Fourier phase ramp"""
    mask = _mask(MASKS[mask_name])

    def claim(I):
        with _patched(I):
            dp, x = _make(I, mask, aberr=aberr, rotation=rotation)
            out = _recon(dp, "prlx", parallax_flip_phase=False).sum(dim=0)
            nbf = int(mask.sum())
            w = _bf_weight(dp, mask)
            shifts = _geometric_shifts(dp, mask)
            qx = np.fft.fftfreq(4, d=5.0)[:, None]
            qy = np.fft.fftfreq(4, d=5.0)[None, :]
            acc = 0
            for i in range(nbf):
                ramp = torch.from_numpy(np.exp(-2j * np.pi * (qx * shifts[i, 0] + qy * shifts[i, 1])))
                img = x[i] - x[i].mean()
                moved = torch.fft.ifft2(torch.fft.fft2(img) * ramp)
                acc = acc + moved.real
            return [Rel("parallax_equals_sum_of_translated_mean_subtracted_images", out, acc / w, tol=TOL, ntol=1e-4)]
    return claim


def override_claim(kernel, mask_name, built, override):
    """hyper-parameters passed as overrides to reconstruct() give the result of an object built with those values:
    built / override = (rotation, aberrations); the override values include exact zeros"""
    mask = _mask(MASKS[mask_name])

    def claim(I):
        with _patched(I):
            dp1, x = _make(I, mask, aberr=built[1], rotation=built[0])
            dp2, _ = _make(I, mask, aberr=override[1], rotation=override[0], stack=x)
            kw = dict(parallax_flip_phase=False) if kernel == "prlx" else {}
            a = _recon(dp1, kernel, override_rotation_angle=override[0], override_aberration_coefs=dict(override[1]), **kw).sum(dim=0)
            b = _recon(dp2, kernel, **kw).sum(dim=0)
            return [Rel("override_equals_built_with_the_same_hyperparameters", a, b, tol=TOL, ntol=1e-4)]
    return claim


def cases(tier):
    out = []
    L = dict(logic=None)
    out.append(("parallax_shifted[5px;defocus]", parallax_shift_claim("5px", {"C10": 80.0}), L))
    out.append(("parallax_shifted[4px;defocus+astigmatism]", parallax_shift_claim("4px", {"C10": -60.0, "C12": 25.0, "phi12": 0.4}), L))
    out.append(("parallax_shifted[3px;defocus;rotation 0.3]", parallax_shift_claim("3px", {"C10": 80.0}, rotation=0.3), L))
    out.append(("parallax_shifted[5px;astigmatism;rotation 0.25]", parallax_shift_claim("5px", {"C12": 30.0, "phi12": -1.1}, rotation=0.25), L))
    out.append(("override[prlx;4px;rotation 0.35 -> 0.0]", override_claim("prlx", "4px", (0.35, {"C10": 80.0, "C12": 20.0, "phi12": 0.4}),
                                                                            (0.0, {"C10": 80.0, "C12": 20.0, "phi12": 0.4})), L))
    out.append(("override[ssb;3px;rotation -0.5 -> 0.0;C10 60 -> 0.0]", override_claim("ssb", "3px", (-0.5, {"C10": 60.0}), (0.0, {"C10": 0.0, "C12": 15.0, "phi12": 0.3})), L))
    out.append(("override[prlx;3px;rotation 0.0 -> 0.2]", override_claim("prlx", "3px", (0.0, {"C10": 50.0}), (0.2, {"C10": -40.0})), L))
    for k in KERNELS:
        out.append((f"batch[{k};5px]", batch_claim(k, "5px"), L))
        out.append((f"linear[{k};4px]", linear_claim(k, "4px"), L))
    out.append(("batch[ssb;4px;defocus]", batch_claim("ssb", "4px", aberr={"C10": 80.0}), L))
    out.append(("batch[prlx;3px;defocus+astigmatism]", batch_claim("prlx", "3px", aberr={"C10": 80.0, "C12": 20.0, "phi12": 0.3}), L))
    out.append(("batch[obf;3px;lowpass]", batch_claim("obf", "3px", lowpass=0.08), L))
    out.append(("linear[prlx;3px;defocus]", linear_claim("prlx", "3px", aberr={"C10": 80.0}), L))
    for k in ("ssb", "prlx", "icom"):
        out.append((f"submasks[{k};5px;split 2+3]", submask_claim(k, "5px", (0, 2)), L))
        out.append((f"submasks[{k};4px;split 1+3]", submask_claim(k, "4px", (3,)), L))
    out.append(("parallax_plain[5px]", parallax_plain_claim("5px"), L))
    out.append(("parallax_plain[3px]", parallax_plain_claim("3px"), L))
    # non-square scans (exact DFT lengths 4 and 2)
    out.append(("parallax_plain[4px;scan 4x2]", parallax_plain_claim("4px", scan=(4, 2)), L))
    out.append(("batch[obf;4px;scan 2x4]", batch_claim("obf", "4px", scan=(2, 4)), L))
    out.append(("batch[ssb;3px;scan 4x2;defocus;rotation 0.2]", batch_claim("ssb", "3px", scan=(4, 2), aberr={"C10": 60.0}, rotation=0.2), L))
    for alias, canonical in sorted(ALIASES.items())[: (3 if tier == "quick" else None)]:
        out.append((f"alias[{alias}]", alias_claim(alias, canonical, "3px"), L))
    if tier != "quick":
        for k in KERNELS:
            out.append((f"batch[{k};4px;upsampling 2]", batch_claim(k, "4px", up=2), L))
            out.append((f"batch[{k};3px;scan 2x4]", batch_claim(k, "3px", scan=(2, 4)), L))
            out.append((f"batch[{k};4px;highpass+lowpass]", batch_claim(k, "4px", lowpass=0.09), L))
        out.append(("batch[mf;5px;defocus+astigmatism;rotation 0.4]", batch_claim("mf", "5px", aberr={"C10": 70.0, "C12": 15.0, "phi12": 0.7}, rotation=0.4), L))
        out.append(("parallax_plain[5px;scan 2x4]", parallax_plain_claim("5px", scan=(2, 4)), L))
    return out


for _n, _c, _ in cases("thorough"):
    register(PID, _n, _c)


def run(check, tier):
    check.add_functions("DirectPtychography._preprocess", "_return_bf_context", "_return_upsampled_qgrid", "_return_kernel_contributions",
                        "_normalize_kernel_name", "reconstruct", "_return_lateral_shifts", "SimpleBatcher (unshuffled)", "complex_probe.gamma_factor / evaluate_probe / "
                        "spatial_frequencies / aberration_surface* (executed concretely by the real code: they do not depend on the stack)")
    check.bounds.update(scan="4x4, 4x2, 2x4 (exact DFT lengths)", detector="4x4 with bright-field masks of 3, 4 and 5 pixels", kernels="ssb, obf, mf, prlx, icom",
                        batch_sizes="1..num_bf", symbolic="every bright-field stack value in [-1, 1] (48-160 symbols per claim)",
                        aberrations="none, defocus, defocus + astigmatism", upsampling="1 (thorough: 2 for batch invariance)")
    check.assumptions += ["real arithmetic on the stack; probe-side constants are the float32 values the real code computes, hence equalities are "
                          f"asked with tolerance {TOL} for stack values in [-1, 1]", "parallax_flip_phase=False (sign flipping is outside the analytic claims)"]
    check.outside += ["upsampling 3, scan shapes beyond 4x4 / 4x2 / 2x4, noise / rng, optimize_hyperparameters", "kernel aliases "
                      "are compared with their canonical name on one configuration each (quick: 3 of the 9 spellings)", "odd scan sizes (float DFT constants)"]
    decide_many(check, [(n, c, dict(o, key=n.split("[")[0])) for n, c, o in cases(tier)],
                timeout_s=120 if tier == "quick" else 600, validate=1, hard_timeout_s=500 if tier == "quick" else 2400)
