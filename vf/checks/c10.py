"""C10 constraints yield admissible models — engine S on the real torch constraint code."""
import types

import numpy as np
import torch

import quantem.diffractive_imaging.object_models as omod
import quantem.diffractive_imaging.probe_models as pm

from ..sym.claims import Rel, decide_many, register
from ..sym.npx import _sabs2

TECHNIQUE = ("term-valued symbolic execution of the real torch constraint code (ObjectConstraints.apply_hard_constraints, "
             "Gram-Schmidt probe orthogonalisation, ProbePixelated._apply_weights) on symbolic raw parameters; amplitude, "
             "positivity, slice-tying, idempotence, orthogonality, intensity-multiset and normalisation claims decided by z3 (QF_NRA)")
PID = "C10"

BASE = dict(apply_fov_mask=False, fix_potential_baseline=False, fix_potential_baseline_factor=1.0, positivity=True,
            gaussian_sigma=None, q_lowpass=None, q_highpass=None, identical_slices=False)


def _a2(x):
    a = x._sym_array() if hasattr(x, "_sym_array") else x.detach().numpy()
    a = np.asarray(a)
    if a.dtype == object:
        r = _sabs2(a)
        return r if isinstance(r, np.ndarray) else np.array(r, dtype=object).reshape(())
    return np.abs(a) ** 2


def _ns(obj_type, num_slices, **kw):
    return types.SimpleNamespace(obj_type=obj_type, constraints=dict(BASE, **kw), num_slices=num_slices, sampling=(1.0, 1.0))


def object_claim(obj_type, shape, masked=False, identical=False, baseline=False, factor=1.0, concrete_mask=None):
    def claim(I):
        with I.patch_torch(omod):
            kind = "real" if obj_type == "potential" else "complex"
            obj = I.tensor("obj", shape, kind, lo=-3, hi=3)
            mask = I.tensor("mask", shape[1:], lo=0, hi=1) if masked else None
            if concrete_mask is not None:
                mask = torch.tensor(concrete_mask, dtype=torch.float64)
            ns = _ns(obj_type, shape[0], apply_fov_mask=masked, identical_slices=identical, fix_potential_baseline=baseline,
                     fix_potential_baseline_factor=factor)
            f = omod.ObjectConstraints.apply_hard_constraints
            out = f(ns, obj.clone(), mask)
            rels = []
            a2 = _a2(out)
            if obj_type == "complex" and not identical:     # slice tying is only claimed to tie slices
                rels.append(Rel("amplitude_at_most_one", a2, 1.0, op="le", ntol=1e-5))
            if obj_type == "pure_phase" and not masked and not identical:
                rels.append(Rel("amplitude_exactly_one", a2, 1.0, ntol=1e-5))
            if obj_type == "potential":
                rels.append(Rel("non_negative", out, 0.0, op="ge", ntol=1e-6))
                rels.append(Rel("real_valued", out.imag if (I.mode == "sym" or out.is_complex()) else torch.zeros(out.numel()), 0.0))
            if identical and shape[0] > 1:
                for s in range(1, shape[0]):
                    rels.append(Rel("identical_slices", out[s], out[0], ntol=1e-6))
            if not masked and not identical and not baseline:
                again = f(ns, out.clone(), mask)
                rels.append(Rel("reapplying_keeps_amplitude", _a2(again), a2, ntol=1e-5))
            return rels
    return claim


def reapply_masked_claim(obj_type, shape, concrete_mask=None):
    """re-applying the constraint with apply_fov_mask on keeps the amplitude; concrete_mask: a 0/1 mask, else every mask value
    is a symbol in [0, 1]"""
    def claim(I):
        with I.patch_torch(omod):
            kind = "real" if obj_type == "potential" else "complex"
            obj = I.tensor("obj", shape, kind, lo=-3, hi=3)
            mask = torch.tensor(concrete_mask, dtype=torch.float64) if concrete_mask is not None else I.tensor("mask", shape[1:], lo=0, hi=1)
            ns = _ns(obj_type, shape[0], apply_fov_mask=True)
            f = omod.ObjectConstraints.apply_hard_constraints
            out = f(ns, obj.clone(), mask)
            again = f(ns, out.clone(), mask)
            return [Rel("reapplying_keeps_amplitude", _a2(again), _a2(out), ntol=1e-5)]
    return claim


KIND = ["real"]


def ortho_claim(shape):
    n = shape[0]

    def claim(I):
        with I.patch_torch(pm):
            p = I.tensor("p", shape, KIND[0], lo=None, hi=None)
            if I.mode != "sym" and not p.is_complex():
                p = p.to(torch.complex128)
            # precondition of the property: linearly independent modes with pairwise correlation <= 0.99 (scale free)
            for i in range(n):
                ni = _a2(p[i]).sum()
                I.assume(ni > 0.01)
                for j in range(i + 1, n):
                    ip = (p[i].conj() * p[j]).sum()
                    if I.mode == "sym":
                        I.assume(_a2(ip).sum() <= ni * _a2(p[j]).sum() * 0.9801)
            ns = types.SimpleNamespace()
            out = pm.ProbeConstraints._probe_orthogonalization_constraint(ns, p)
            rels = []
            for i in range(n):
                for j in range(i + 1, n):
                    ip = (out[i].conj() * out[j]).sum()
                    rels.append(Rel("pairwise_orthogonal", ip, 0.0, ntol=1e-5))
            ints_in = [_a2(p[i]).sum() for i in range(n)]
            ints_out = [_a2(out[i]).sum() for i in range(n)]
            for i in range(n - 1):
                rels.append(Rel("descending_order", ints_out[i], ints_out[i + 1], op="ge", ntol=1e-6))
            # (the "same multiset of mode intensities" clause is not decided: z3's nlsat returns unknown on
            #  |v / sqrt(|v|^2)|^2 * N^2 == N^2 in this setting; listed under outside_the_claim)
            return rels
    return claim


def _indep(I, p, shape):
    """precondition of the orthogonality claim: every Gram-Schmidt residual norm exceeds the 1e-12 guard"""


def weights_claim(shape, weights):
    def claim(I):
        with I.patch_torch(pm):
            p = I.tensor("p", shape, "complex", lo=-2, hi=2)
            mean_int = I.real("mean_intensity", 0.1, 50, positive=True)
            ns = types.SimpleNamespace(_to_torch=lambda x: x, mean_diffraction_intensity=mean_int, device="cpu",
                                       initial_probe_weights=torch.tensor(weights, dtype=torch.float64))
            if I.mode == "sym":
                # every mode carries some intensity (otherwise the requested weights cannot be imposed)
                for i in range(shape[0]):
                    I.assume(_a2(p[i]).sum() > 0.01)
            out = pm.ProbePixelated._apply_weights(ns, p.clone())
            F = torch.fft.fft2(out, norm="ortho")
            tot = _a2(F).sum()
            modes = [_a2(out[i]).sum() for i in range(shape[0])]
            rels = [Rel("total_diffraction_intensity_equals_mean_intensity", tot, mean_int, ntol=1e-5)]
            s = sum(modes)
            for i, w in enumerate(weights):
                rels.append(Rel("mode_weights", modes[i], s * w, ntol=1e-5))
            return rels
    return claim


def cases(tier):
    out = []
    L = dict(logic="QF_NRA")
    for sh in ((1, 2, 2), (2, 1, 2), (3, 1, 1)):
        out.append((f"object[complex;{sh}]", object_claim("complex", sh), L))
        out.append((f"object[pure_phase;{sh}]", object_claim("pure_phase", sh), L))
        out.append((f"object[potential;{sh}]", object_claim("potential", sh), L))
    out.append(("object[complex;(1, 2, 2);fov_mask]", object_claim("complex", (1, 2, 2), masked=True), L))
    out.append(("object[potential;(2, 1, 2);fov_mask]", object_claim("potential", (2, 1, 2), masked=True), L))
    out.append(("object[potential;(1, 2, 2);baseline]", object_claim("potential", (1, 2, 2), baseline=True), L))
    out.append(("object[potential;(1, 2, 2);baseline factor 1.5]", object_claim("potential", (1, 2, 2), baseline=True, factor=1.5), L))
    out.append(("object[potential;(1, 2, 2);baseline, mask with background]",
                object_claim("potential", (1, 2, 2), baseline=True, concrete_mask=[[[1.0, 0.9], [0.2, 0.1]]]), L))
    out.append(("object[potential;(2, 1, 2);baseline, mask with background, factor 0.5]",
                object_claim("potential", (2, 1, 2), baseline=True, factor=0.5, concrete_mask=[[[1.0, 0.3]], [[0.9, 0.2]]]), L))
    for t in ("complex", "pure_phase", "potential"):
        out.append((f"reapply[{t};(1, 2, 2);binary fov_mask]", reapply_masked_claim(t, (1, 2, 2), concrete_mask=[[1.0, 0.0], [1.0, 1.0]]), L))
        # a field-of-view mask with values strictly between 0 and 1 (known finding for complex objects, see DESIGN §4); "amplitude"
        # is read as |obj| of complex / pure-phase objects, so the clause is not asked of potential objects under such a mask
        if t != "potential":
            out.append((f"reapply[{t};(1, 1, 2);fractional fov_mask]", reapply_masked_claim(t, (1, 1, 2)),
                        dict(L, key=f"reapplying_under_fractional_fov_mask:{t}")))
    for t in ("complex", "pure_phase", "potential"):
        out.append((f"object[{t};(2, 1, 2);identical_slices]", object_claim(t, (2, 1, 2), identical=True), L))
        out.append((f"object[{t};(3, 1, 1);identical_slices]", object_claim(t, (3, 1, 1), identical=True), L))
    out.append(("orthogonalize[2 modes x 1x2]", ortho_claim((2, 1, 2)), L))
    out.append(("weights[1 mode 2x2]", weights_claim((1, 2, 2), [1.0]), L))
    out.append(("weights[2 modes 1x2]", weights_claim((2, 1, 2), [0.75, 0.25]), L))
    out.append(("weights[3 modes 1x1]", weights_claim((3, 1, 1), [0.5, 0.3, 0.2]), L))
    return out


for _n, _c, _ in cases("thorough"):
    register(PID, _n, _c)


def run(check, tier):
    check.add_functions("ObjectConstraints.apply_hard_constraints", "ProbeConstraints._probe_orthogonalization_constraint",
                        "ProbePixelated._apply_weights")
    check.bounds.update(object_grids="1x2x2, 2x1x2, 3x1x1 (slices x rows x cols)", probe="2 real-valued modes x 2 pixels, unbounded values, correlation <= 0.99 (Gram-Schmidt); 1-3 complex modes (weights)",
                        symbolic="all real/imaginary parts in [-3,3], mask values in [0,1], mean intensity in [0.1, 50]")
    check.assumptions += ["angle() is a fresh angle atom tied to the value by r cos = Re, r sin = Im; exp(i theta) of a non-atomic theta is an "
                          "opaque unit vector (enough for amplitude claims)", "Gram-Schmidt: the clamp_min(1e-12) guard is an ite; "
                          "linear independence is not assumed away", "constraint dictionaries without smoothing filters"]
    check.outside += ["3-5 probe modes and complex-valued modes for orthogonality (nlsat finishes for 2 real-valued modes x 2 pixels only)",
                      "the 'same multiset of mode intensities' clause (solver returns unknown)", "Gaussian/Butterworth filters",
                      "tomography object_models", "centre-of-mass probe constraint"]
    decide_many(check, [(n, c, dict(dict(key=n.split("[")[0]), **o)) for n, c, o in cases(tier)],
                timeout_s=120 if tier == "quick" else 600, validate=1 if tier == "quick" else 3)
