"""C11 ragged Vector invariants — engine X over the real Vector class."""
import random

from ..common import seed
from ..xh import run_jobs

TECHNIQUE = ("CrossHair/z3 symbolic execution of the real quantem Vector API: operation kinds, index expressions "
             "(menu selectors) and arguments are solver variables; a list-of-rows reference model and the structural "
             "invariants are asserted after every operation; counterexamples replayed concretely")
FILE = "harness/c11_vector.py"
N_OPS = 10
SHAPES = 8


def run(check, tier):
    check.add_functions("Vector.from_shape", "Vector.from_data", "Vector.__getitem__", "Vector.__setitem__", "Vector.get_data",
                        "Vector.set_data", "Vector.add_fields", "Vector.remove_fields", "Vector.copy", "Vector.flatten",
                        "_FieldView.__iadd__/__isub__/__imul__", "_FieldView.flatten", "_FieldView.set_flattened",
                        "validators.validate_shape/fields/vector_units/vector_data")
    check.bounds.update(shapes="8 shapes with 1, 2 and 3 fixed dimensions, extents 1..3", fields="1..3",
                        cells="populated subset by bit mask (incl. unset cells and zero-row cells), 0..2 rows",
                        operations="10 operation kinds; every single operation with all its arguments; histories of 3 operations "
                                   "with symbolic kinds and seeded arguments",
                        index_menu="per axis: every int, 4-7 slices (incl. negative step, empty), 1-3 index lists")
    check.assumptions += ["cell values are concrete distinct numbers (cell identity is what the property is about)",
                          "NumPy is trusted for array arithmetic inside a cell"]
    check.outside += ["histories longer than 3", "more than 3 fixed dimensions", "assignment through a size-1 index list",
                      "field arithmetic other than += -= *= with small integers", "sliced vectors share their cell arrays with the parent (documented view semantics)"]
    quick = tier == "quick"
    rnd = random.Random(seed())
    t = 240 if quick else 1500
    jobs = [dict(fn="history__reach", timeout=60),
            dict(fn="independent", timeout=t, key="independent"),
            dict(fn="from_data_roundtrip", timeout=t, key="from_data")]
    none = dict(o2=N_OPS, o3=N_OPS)
    for sh in range(SHAPES):
        nf, fill = rnd.randrange(1, 4), rnd.randrange(1, 64)
        # every single operation with all its arguments (index expressions on every axis)
        for o1 in range(N_OPS):
            fixed = dict(none, shape_sel=sh, nf=nf, fill=fill, o1=o1)
            if quick and o1 in (2, 3):
                fixed["menu"] = "small"
            jobs.append(dict(fn="history", fixed=fixed, timeout=t, key=f"op{o1}:shape{sh}"))
    # histories of three operations: kinds symbolic, arguments seeded
    for sh in range(SHAPES):
        for o1 in range(N_OPS):
            if quick and rnd.random() < 0.65:
                continue
            fixed = dict(shape_sel=sh, nf=rnd.randrange(1, 4), fill=rnd.randrange(64), o1=o1, menu="small")
            for k in ("a1", "b1", "c1", "a2", "b2", "c2", "a3", "b3", "c3"):
                fixed[k] = rnd.randrange(8)
            jobs.append(dict(fn="history", fixed=fixed, timeout=t, key=f"history3:shape{sh}"))
    # cells of different dtypes (int / bool / float32 / float64, either order): flatten / set_flattened keep every value
    jobs.append(dict(fn="mixed_dtypes__reach", timeout=60))
    jobs += [dict(fn="mixed_dtypes", fixed=dict(d0=d0), timeout=t, key="mixed_cell_dtypes") for d0 in range(5)]
    run_jobs(check, FILE, jobs)
