"""C16 forward-model operator identities — engine S (phasor algebra + exact small DFTs)."""
import math
import types
from fractions import Fraction

import numpy as np
import torch

import quantem.core.utils.array_funcs as af
import quantem.diffractive_imaging.detector_models as det
import quantem.diffractive_imaging.probe_models as pm
import quantem.diffractive_imaging.ptycho_utils as pu
import quantem.diffractive_imaging.ptychography as pty
import quantem.diffractive_imaging.ptychography_base as pb
from quantem.core.utils.utils import electron_wavelength_angstrom

from ..sym.claims import Rel, decide_many, register
from ..sym.npx import _sabs2, lift

TECHNIQUE = ("term-valued symbolic execution of the real NumPy/torch operator code (Fourier translation, Fresnel propagation, "
             "patch scatter/gather, detector, Fourier-magnitude projection) with unit-modulus phasors expanded into (cos, sin) "
             "atoms and exact DFTs of length 1/2/4; energy, additivity, roll, inverse, adjoint and projection identities decided "
             "by z3 (QF_NRA)")
PID = "C16"
ENERGY = 80e3


def _energy(x):
    a = np.asarray(x._sym_array() if hasattr(x, "_sym_array") else (x.detach().numpy() if isinstance(x, torch.Tensor) else x))
    if a.dtype == object:
        return _sabs2(a).sum()
    return (np.abs(a) ** 2).sum()


SHIFTS = {(2, 2): [(r, c) for r in range(-2, 3) for c in (-2, 0, 1)],
          (4, 2): [(-4, 0), (-3, 1), (-1, -1), (0, 1), (1, 0), (2, 2), (3, -2), (5, 1)],
          (2, 4): [(0, -3), (1, 2), (-1, 1), (2, 5), (-2, -4)]}


def translation_claim(shape, what):
    nr, nc = shape

    def claim(I):
        with I.patch(pu, af), I.patch_torch(af):
            x = I.array("x", (1,) + shape, "complex")
            rels = []
            if what == "energy_additive":
                a = np.array([[I.angle("ar", 2 * math.pi / nr), I.angle("ac", 2 * math.pi / nc)]], dtype=object)
                b = np.array([[I.angle("br", 2 * math.pi / nr), I.angle("bc", 2 * math.pi / nc)]], dtype=object)
                if I.mode == "sym":
                    a, b = lift(a), lift(b)
                else:
                    a, b = a.astype(float), b.astype(float)
                ya = pu.fourier_shift_expand(x, a, expand_dim=False)
                yab = pu.fourier_shift_expand(ya, b, expand_dim=False)
                y_sum = pu.fourier_shift_expand(x, a + b, expand_dim=False)
                rels.append(Rel("translation_preserves_total_intensity", _energy(ya), _energy(x), ntol=1e-5))
                rels.append(Rel("translations_compose_additively", yab, y_sum, ntol=1e-5))
            else:
                for r, c in SHIFTS[shape]:
                    pos = np.array([[float(r), float(c)]])
                    y = pu.fourier_shift_expand(x, pos, expand_dim=False)
                    rels.append(Rel(f"integer_translation_is_roll[{r},{c}]", y, np.roll(x, (r, c), axis=(-2, -1)),
                                    tol=4e-6, ntol=1e-5))
            return rels
    return claim


def _probe_ns(shape, tilt=(0, 0)):
    return types.SimpleNamespace(device="cpu", roi_shape=shape, probe_params={"energy": ENERGY}, probe_tilt=tilt)


def propagation_claim(shape, tilted=False):
    def claim(I):
        lam = electron_wavelength_angstrom(ENERGY)
        # all k^2 values are multiples of 1/16 for lengths dividing 4 at sampling 1
        unit = abs((-1.0j * math.pi * lam).imag) / 16
        with I.patch_torch(pm, pb):
            x = I.tensor("x", (1,) + shape, "complex")
            dz = I.angle("dz", unit)
            if I.mode != "sym":
                dz = abs(dz) * 20 + 1.0
                I.values["dz"] = dz
            tilt = (0, 0)
            if tilted:
                # a tilt whose ramp advances by an integer number of dz-units per frequency step
                t = math.atan(lam / 8) * 1e3
                tilt = (torch.tensor(t), 0)
            ns = _probe_ns(shape, tilt)
            thick = [dz, -dz] if I.mode == "sym" else [dz, -dz]
            props = pm.ProbeBase._compute_propagator_arrays(ns, (1.0, 1.0), 3, thick if I.mode == "sym" else np.array(thick))
            fwd = pb.PtychographyBase._propagate_array(None, x, props[0])
            back = pb.PtychographyBase._propagate_array(None, fwd, props[1])
            return [Rel("propagation_preserves_total_intensity", _energy(fwd), _energy(x), ntol=1e-4),
                    Rel("propagate_then_back_is_identity", back, x, ntol=1e-4)]
    return claim


def adjoint_claim(obj_shape, idx):
    idx = np.asarray(idx)

    def claim(I):
        with I.patch_torch(pu, af):
            o = I.tensor("o", obj_shape, "complex")
            p = I.tensor("p", idx.shape, "complex")
            ti = torch.from_numpy(idx)
            scattered = pu.sum_patches(p, ti, obj_shape)
            gathered = o.reshape(-1)[ti]
            lhs = (scattered.conj() * o).sum()
            rhs = (p.conj() * gathered).sum()
            return [Rel("sum_patches_is_adjoint_of_extraction", lhs, rhs, ntol=1e-5)]
    return claim


def pure_phase_energy_claim(shape, slices, modes):
    def claim(I):
        lam = electron_wavelength_angstrom(ENERGY)
        unit = abs((-1.0j * math.pi * lam).imag) / 16
        with I.patch_torch(pm, pb, det):
            probe = I.tensor("probe", (modes, 1) + shape, "complex")
            # pure-phase object patches exp(i phi): one angle atom per pixel and slice
            ph = np.empty((slices, 1, 1) + shape, dtype=object)
            for idx in np.ndindex(*ph.shape):
                ph[idx] = I.angle("phi" + "_".join(map(str, idx)), 1)
            if I.mode == "sym":
                from ..sym.torchx import SymTensor
                patches = torch.exp(1.0j * SymTensor(lift(ph)))
            else:
                patches = torch.exp(1.0j * torch.from_numpy(ph.astype(float)))
            ns = types.SimpleNamespace(num_slices=slices)
            if slices > 1:
                dz = I.angle("dz", unit)
                if I.mode != "sym":
                    dz = abs(dz) * 20 + 1.0
                    I.values["dz"] = dz
                th = [dz] * (slices - 1)
                ns._propagators = pm.ProbeBase._compute_propagator_arrays(_probe_ns(shape), (1.0, 1.0), slices,
                                                                          th if I.mode == "sym" else np.array(th))
            ns._propagate_array = lambda a, p: pb.PtychographyBase._propagate_array(ns, a, p)
            _, overlap = pb.PtychographyBase.overlap_projection(ns, patches, probe)
            inten = det.DetectorPixelated.forward(None, overlap)
            return [Rel("summed_intensity_equals_probe_intensity", inten.sum(), _energy(probe), ntol=1e-4)]
    return claim


def projection_claim(shape):
    def claim(I):
        with I.patch_torch(pty, pb):
            overlap = I.tensor("psi", (1, 1) + shape, "complex")
            amps = I.tensor("amp", (1,) + shape, lo=0, hi=2, nonneg=True)
            ns = types.SimpleNamespace(num_probes=1)
            ns.estimate_amplitudes = lambda o, corner_centered=False: pb.PtychographyBase.estimate_amplitudes(ns, o, corner_centered)
            out = pty.Ptychography.fourier_projection(ns, amps, overlap)
            F = torch.fft.fft2(out, norm="ortho")
            shifted = torch.fft.fftshift(amps, dim=(-2, -1))
            mag2 = F.real * F.real + F.imag * F.imag
            twice = pty.Ptychography.fourier_projection(ns, amps, out)
            return [Rel("fourier_magnitudes_equal_measured_amplitudes", mag2[0], shifted * shifted, ntol=1e-4),
                    Rel("projection_is_idempotent", twice, out, ntol=1e-4)]
    return claim


def projection_detector_claim(shape):
    """the projected exit wave, sent through the detector model, shows exactly the measured pattern
    (this fixes the centring convention: measured amplitudes are detector-centred)"""
    def claim(I):
        with I.patch_torch(pty, pb, det):
            overlap = I.tensor("psi", (1, 1) + shape, "complex")
            amps = I.tensor("amp", (1,) + shape, lo=0, hi=2, nonneg=True)
            ns = types.SimpleNamespace(num_probes=1)
            ns.estimate_amplitudes = lambda o, corner_centered=False: pb.PtychographyBase.estimate_amplitudes(ns, o, corner_centered)
            out = pty.Ptychography.fourier_projection(ns, amps, overlap)
            inten = det.DetectorPixelated.forward(None, out)
            return [Rel("detector_sees_the_measured_pattern", inten, amps * amps, tol=1e-9, ntol=1e-4)]
    return claim


def cases(tier):
    out = []
    for sh in ((1, 2), (1, 3), (3, 1), (2, 2)):
        out.append((f"fourier_projection_detector[{sh}]", projection_detector_claim(sh), dict(logic="QF_NRA")))
    for sh in ((2, 2), (4, 2), (2, 4)):
        out.append((f"translation[{sh};energy_additive]", translation_claim(sh, "energy_additive"), dict(logic="QF_NRA")))
        out.append((f"translation[{sh};integer_roll]", translation_claim(sh, "roll"), dict(logic="QF_LRA")))
    for sh in ((2, 2), (4, 2), (2, 4)):
        out.append((f"propagation[{sh}]", propagation_claim(sh), dict(logic="QF_NRA")))
    out.append(("propagation[(4, 2);tilted]", propagation_claim((4, 2), tilted=True), dict(logic="QF_NRA")))
    out.append(("adjoint[3x3;2 patches 2x2 with wrap]", adjoint_claim((3, 3), [[[0, 1], [3, 4]], [[8, 6], [2, 0]]]), dict(logic="QF_NRA")))
    out.append(("adjoint[2x3;repeats]", adjoint_claim((2, 3), [[[0, 0], [5, 5]], [[1, 2], [1, 2]], [[3, 4], [4, 3]]]), dict(logic="QF_NRA")))
    out.append(("adjoint[1x4;all to one]", adjoint_claim((1, 4), [[[2, 2], [2, 2]]]), dict(logic="QF_NRA")))
    # (more slices / pixels do not finish in z3's nlsat: they follow by composing "propagation preserves total
    # intensity" with the pointwise unit modulus of a pure-phase object; stated in the evidence, not claimed by a query)
    for sh, sl, md in (((2, 2), 1, 1), ((1, 2), 2, 1), ((2, 2), 1, 2), ((2, 1), 2, 2), ((4, 2), 1, 1)):
        out.append((f"pure_phase_energy[{sh};slices={sl};modes={md}]", pure_phase_energy_claim(sh, sl, md), dict(logic="QF_NRA")))
    out.append(("fourier_projection[(2, 2)]", projection_claim((2, 2)), dict(logic="QF_NRA")))
    out.append(("fourier_projection[(1, 2)]", projection_claim((1, 2)), dict(logic="QF_NRA")))
    return out


for _n, _c, _ in cases("thorough"):
    register(PID, _n, _c)


def run(check, tier):
    check.add_functions("ptycho_utils.fourier_translation_operator", "fourier_shift_expand", "sum_patches / sum_patches_base",
                        "ProbeBase._compute_propagator_arrays", "PtychographyBase._propagate_array", "PtychographyBase.overlap_projection",
                        "DetectorPixelated.forward", "Ptychography.fourier_projection (single-mode branch)")
    check.bounds.update(roi="2x2, 4x2, 2x4 (exact DFT lengths)", slices="1..3", modes="1..2",
                        symbolic="all complex array elements in [-1,1]^2, shift vectors, slice thickness, object phases, measured amplitudes >= 0",
                        patch_indices="3 index sets with repeats and wrap-around")
    check.assumptions += ["real arithmetic; the phase ramp for *concrete* shifts is computed by NumPy in complex64, so integer-shift == roll "
                          "is asked with tolerance 4e-6 for contents in [-1,1]", "exp(i theta) is expanded exactly when theta is an integer "
                          "multiple of the declared unit of an angle input; cos/sin of constants are exact at multiples of pi/2",
                          "sampling 1.0 so that all k^2 are multiples of 1/16"]
    check.outside += ["pure-phase energy with >= 3 slices or 2 slices on >= 4 pixels as a single query (nlsat does not finish); it follows "
                      "by composition of the per-step identities that are decided", "ROI larger than 4 pixels per axis", "mixed-state branch of fourier_projection (tried: 2 modes on a 1x2 ROI, sum of the projected modes' intensities = measured pattern with the 1e-9 regulariser as a tolerance - z3 (default and QF_NRA) does not answer within 15 minutes)",
                      "gradient_step", "object-side _propagate_array/_get_obj_patches (identical expressions)"]
    decide_many(check, [(n, c, dict(o, key=n.split("[")[0])) for n, c, o in cases(tier)],
                timeout_s=120 if tier == "quick" else 600, validate=1 if tier == "quick" else 2)
