"""C13 image registration — engine S on a structured input family that keeps the queries linear:
reference spectrum F_ref[k] = p_k * exp(-2 pi i k.s / N) with symbolic p_k >= 0.1 and a concrete integer
shift s anywhere in the cell, image spectrum = 1 (a delta image), both given in Fourier space.
Peak locations (argmax) are decided by the solver comparison by comparison (checked concretisation)."""
import numpy as np
import torch

import quantem.core.utils.imaging_utils as iu

from ..sym.claims import Rel, decide_many, register
from ..sym.npx import lift

TECHNIQUE = ("term-valued symbolic execution of the real NumPy and torch cross-correlation estimators on reference spectra with "
             "symbolic non-negative magnitudes and a concrete integer shift; every argmax comparison and every floor/round/mod is "
             "a solver-checked concretisation; returned shift, antisymmetry and zero-shift claims decided by z3 (QF_LRA)")
PID = "C13"


def _spectra(I, shape, s):
    M, N = shape
    p = I.array("p", shape, lo=0.1, hi=1.0)
    kr = np.fft.fftfreq(M)[:, None] * M
    kc = np.fft.fftfreq(N)[None, :] * N
    ang = -2 * np.pi * (kr * s[0] / M + kc * s[1] / N)
    # the image is a unit delta at the origin (spectrum 1); the reference is the delta-like image with
    # magnitudes p translated by s (it is real-valued when p is symmetric, which the estimator does not need)
    ramp = np.empty(shape, dtype=complex)
    for idx in np.ndindex(*shape):
        c, sn = np.cos(ang[idx]), np.sin(ang[idx])
        ramp[idx] = complex(0 if abs(c) < 1e-12 else (round(c) if abs(c - round(c)) < 1e-12 else c),
                            0 if abs(sn) < 1e-12 else (round(sn) if abs(sn - round(sn)) < 1e-12 else sn))
    F_ref = p * ramp
    F_im = np.ones(shape, dtype=complex)
    if I.mode == "sym":
        F_im = lift(F_im)
    return F_ref, F_im


def _wrap(s, shape):
    return [((s[i] + shape[i] / 2) % shape[i]) - shape[i] / 2 for i in (0, 1)]


def numpy_claim(shape, s, up):
    def claim(I):
        with I.patch(iu):
            F_ref, F_im = _spectra(I, shape, s)
            got = iu.cross_correlation_shift(F_ref, F_im, upsample_factor=up, fft_input=True)
            back = iu.cross_correlation_shift(F_im, F_ref, upsample_factor=up, fft_input=True)
            # a series registered against one precomputed reference spectrum (drift.py does that): the same arrays again
            again = iu.cross_correlation_shift(F_ref, F_im, upsample_factor=up, fft_input=True) if up <= 4 else None
            want = _wrap(s, shape)
            half = [abs(abs(w) - shape[i] / 2) < 1e-9 for i, w in enumerate(want)]
            rels = []
            for i in (0, 1):
                if half[i]:
                    continue                          # a shift of exactly half the cell: +N/2 and -N/2 are the same translation
                rels.append(Rel("returns_the_applied_shift", got[i], want[i], tol=1e-6, ntol=1e-6))
                rels.append(Rel("swapping_the_images_negates_the_shift", back[i], -want[i], tol=1e-6, ntol=1e-6))
                if again is not None:
                    rels.append(Rel("registering_the_same_arrays_again_returns_the_applied_shift", again[i], want[i], tol=1e-6, ntol=1e-6))
            return rels
    return claim


def torch_claim(shape, s, up):
    def claim(I):
        with I.patch_torch(iu):
            F_ref, F_im = _spectra(I, shape, s)
            if I.mode == "sym":
                from ..sym.torchx import SymTensor
                G1, G2 = SymTensor(F_ref, cplx=True), SymTensor(F_im, cplx=True)
            else:
                G1, G2 = torch.from_numpy(np.ascontiguousarray(F_ref)), torch.from_numpy(np.ascontiguousarray(F_im))
            xy = iu.align_images_fourier_torch(G1, G2, up)
            yx = iu.align_images_fourier_torch(G2, G1, up)
            want = _wrap(s, shape)
            rels = []
            for i in (0, 1):
                if abs(abs(want[i]) - shape[i] / 2) < 1e-9:
                    continue
                M = shape[i]
                rels.append(Rel("returns_the_applied_shift", ((xy[i] + M / 2) % M) - M / 2, want[i], tol=1e-6, ntol=1e-5))
                rels.append(Rel("swapping_the_images_negates_the_shift", ((yx[i] + M / 2) % M) - M / 2, -want[i], tol=1e-6, ntol=1e-5))
            return rels
    return claim


def cases(tier):
    out = []
    quick = tier == "quick"
    # exact DFT lengths only (2 and 4): with float64 twiddles the parabolic refinement is a symbolic 1e-16 instead of 0 and
    # the integer parts taken by the estimator's % are no longer determined (reported as inconclusive, so left out)
    shapes = {(4, 4): [(0, 0), (1, 0), (3, 2), (-1, 1), (1, 3)], (4, 2): [(0, 0), (1, 1), (3, 0), (-1, 1)], (2, 4): [(0, 0), (1, 3), (0, -1)]}
    if not quick:
        shapes[(4, 4)] += [(2, 1), (0, 3), (-1, -1), (3, 3), (1, 1)]
        shapes[(4, 2)] += [(1, 0), (-1, 0), (3, 1)]
        shapes[(2, 4)] += [(1, 0), (1, 1), (0, 3), (1, -1)]
    # the upsampled patch has (2*ceil(1.5*up)+1)^2 entries and the checked argmax compares all of them: the NumPy estimator on
    # 4x4 with a non-zero shift does not finish for up >= 7 (hard time limit), those cases are left out and stated
    ups = (1, 2, 3, 4, 8) if quick else (1, 2, 3, 4, 7, 8)
    for shape, shifts in shapes.items():
        for s in shifts:
            for up in ups:
                if not (up >= 7 and shape == (4, 4) and s != (0, 0)):
                    out.append((f"numpy[{shape};shift={s};up={up}]", numpy_claim(shape, s, up), dict(logic=None)))
                out.append((f"torch[{shape};shift={s};up={up}]", torch_claim(shape, s, up), dict(logic=None)))
    # odd number of columns / rows (length 3 is an exact DFT length with the algebraic constant sqrt(3)): torch estimator
    odd = {(4, 3): [(0, -1), (1, 1), (0, 0)], (2, 3): [(1, 1), (0, 1), (0, -1)], (3, 4): [(-1, 1), (1, 0)]}
    for shape, shifts in odd.items():
        for s in shifts:
            for up in ((1, 2, 4) if shape != (2, 3) else ups):
                out.append((f"torch[{shape};shift={s};up={up}]", torch_claim(shape, s, up), dict(logic=None)))
    return out


for _n, _c, _ in cases("thorough"):
    register(PID, _n, _c)


def run(check, tier):
    check.add_functions("imaging_utils.cross_correlation_shift", "dft_upsample", "align_images_fourier_torch", "upsampled_correlation_torch",
                        "dftUpsample_torch")
    check.bounds.update(shapes="4x4, 4x2, 2x4 (exact DFT lengths; non-square included); torch estimator also 4x3, 2x3, 3x4", shifts="integer shifts anywhere in the cell incl. beyond half the size and (0, 0)",
                        upsample_factors="1, 2, 3, 4, 8 (thorough: also 7); NumPy estimator on 4x4 with up >= 7: zero shift only", symbolic="all spectral magnitudes p_k in [0.1, 1]")
    check.assumptions += ["restricted input family (delta image, reference = magnitudes p_k with a linear phase ramp) given in Fourier space",
                          "every argmax comparison / floor / round / mod is decided uniquely by the solver on the path (otherwise inconclusive)",
                          "real arithmetic; non-exact DFT lengths and upsampling kernels use float64 constants, claims asked with tolerance 1e-6"]
    check.outside += ["arbitrary image content", "sub-pixel shifts and the 'within one upsampled pixel' accuracy clause", "max_shift",
                      "return_shifted_image", "upsampling factors other than 1, 2, 3, 4, 7, 8", "NumPy estimator, 4x4, non-zero shift, upsampling 7 or 8 (does not finish)", "shifts of exactly half the cell (sign ambiguous)", "image sizes other than 2, 3 (torch only) and 4 per axis (the estimator's data-dependent rounding is not determined under the float-constant DFT model)"]
    decide_many(check, [(n, c, dict(o, key=n.split("[")[0])) for n, c, o in cases(tier)],
                timeout_s=120 if tier == "quick" else 600, validate=1, max_paths=8, decide_logic="QF_LRA", hard_timeout_s=200)
