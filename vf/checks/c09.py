"""C09 mini-batch scheduling — engine X (partition structure) [+ engine S loss scaling, engine Z all sizes: added by later stages]."""
import random

from ..common import seed
from ..xh import run_jobs

TECHNIQUE = ("CrossHair/z3 symbolic execution of the real SimpleBatcher / subdivide_batches / generate_batches with "
             "symbolic sizes, ratios, modes and a solver-chosen permutation stub; partition post-conditions")
FILE = "harness/c09_batcher.py"


def run(check, tier):
    check.add_functions("SimpleBatcher.__init__", "SimpleBatcher.__iter__", "SimpleBatcher.__len__", "SimpleBatcher.iter_val",
                        "SimpleBatcher.val_len", "utils.subdivide_batches", "utils.generate_batches")
    quick = tier == "quick"
    nmax = 7 if quick else 9
    check.bounds.update(batcher=f"n in 1..{nmax}, batch_size in None,1..11, val_ratio = p/20 (p in 0..19), grid and random split, "
                                "shuffle on/off, 4 permutations per generator call (identity, rotation, reversal, both)",
                        subdivide="n <= 40, max_batch <= 45, start_index in -5..5 (unrealised symbolic ints)")
    check.stubs.append("np.random.Generator inside ptycho_utils -> stub whose permutation() returns a solver-chosen permutation "
                       "(contract of Generator.permutation)")
    check.assumptions += ["val_ratio on the rational grid p/20 so that round() is decided exactly",
                          "bit-level determinism of NumPy/torch generators (same seed => same stream) is NumPy's contract, not checked"]
    check.outside += ["n > 9 for the batcher (engine X realises n at np.arange)", "gradient equality through autograd",
                      "bit-identical loss histories across runs"]
    rnd = random.Random(seed())
    t = 300 if quick else 1800
    jobs = [dict(fn="partition__reach", timeout=60),
            dict(fn="subdivide", timeout=t * 2, key="subdivide_batches"),
            dict(fn="subdivide_num", timeout=t, key="subdivide_batches_num")]
    ps = sorted(rnd.sample(range(1, 20), 7)) + [0, 10] if quick else list(range(20))
    for n in range(1, nmax + 1):
        for mode in (False, True):
            for shuffle in (False, True):
                jobs.append(dict(fn="partition", fixed=dict(n=n, mode=mode, shuffle=shuffle, p_in=sorted(set(ps))),
                                 timeout=t, key=f"partition:n={n}"))
    run_jobs(check, FILE, jobs)
