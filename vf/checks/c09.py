"""C09 mini-batch scheduling — engine X (partition structure) [+ engine S loss scaling, engine Z all sizes: added by later stages]."""
import random

from ..common import seed
from ..xh import run_jobs

TECHNIQUE = ("CrossHair/z3 symbolic execution of the real SimpleBatcher / subdivide_batches / generate_batches with "
             "symbolic sizes, ratios, modes and a solver-chosen permutation stub; partition post-conditions; term-valued symbolic "
             "execution of the real error_estimate for the batch-mean == full-batch loss identity (z3, QF_NRA)")
FILE = "harness/c09_batcher.py"


def loss_scaling_claim(n, det, loss_type):
    """mean over the batches of the per-batch loss == full-batch loss, for every divisor of the pattern count"""
    import types

    import numpy as np

    import quantem.diffractive_imaging.ptychography_base as pb

    def claim(I):
        with I.patch_torch(pb):
            pred = I.tensor("pred", (n,) + det, lo=0, hi=2, nonneg=True)
            targ = I.tensor("target", (n,) + det, lo=0, hi=2, nonneg=True)
            mask = I.tensor("mask", det, lo=0, hi=1)
            # (Poisson loss: log is an uninterpreted function; a symbolic divisor on top of it does not finish, so the mean
            # intensity is a constant there)
            mean_int = I.real("mean_intensity", 0.1, 10, positive=True) if loss_type != "poisson" else 2.5
            ns = types.SimpleNamespace(dset=types.SimpleNamespace(targets=targ, detector_mask=mask, num_gpts=n,
                                                                  mean_diffraction_intensity=mean_int))
            full, _ = pb.PtychographyBase.error_estimate(ns, pred, np.arange(n), loss_type)
            rels = []
            for b in [d for d in range(1, n + 1) if n % d == 0]:
                tot = 0
                for start in range(0, n, b):
                    idx = np.arange(start, start + b)
                    lb, _ = pb.PtychographyBase.error_estimate(ns, pred[idx], idx, loss_type)
                    tot = tot + lb
                rels.append(Rel(f"mean_of_batch_losses_equals_full_loss[b={b}]", tot / (n // b), full, ntol=1e-6))
            return rels
    return claim


def loss_cases():
    out = []
    for n, det in ((4, (1, 2)), (6, (1, 1)), (3, (2, 1))):
        for lt in ("l2_amplitude", "l1_amplitude", "l2_intensity", "l1_intensity", "poisson"):
            out.append((f"loss_scaling[n={n};det={det};{lt}]", loss_scaling_claim(n, det, lt), dict(logic="QF_NRA" if lt != "poisson" else None)))
    return out


from ..sym.claims import Rel, decide_many, register  # noqa: E402

for _n, _c, _ in loss_cases():
    register("C09", _n, _c)


def run(check, tier):
    check.add_functions("SimpleBatcher.__init__", "SimpleBatcher.__iter__", "SimpleBatcher.__len__", "SimpleBatcher.iter_val",
                        "SimpleBatcher.val_len", "utils.subdivide_batches", "utils.generate_batches")
    quick = tier == "quick"
    nmax = 7 if quick else 9
    check.bounds.update(batcher=f"n in 1..{nmax}, batch_size in None,1..11, val_ratio = p/20 (p in 0..19), grid and random split, "
                                "shuffle on/off, 4 permutations per generator call (identity, rotation, reversal, both)",
                        subdivide="n <= 40, max_batch <= 45, start_index in -5..5 (unrealised symbolic ints)")
    check.stubs.append("np.random.Generator inside ptycho_utils -> stub whose permutation() returns a solver-chosen permutation "
                       "(contract of Generator.permutation)")
    check.assumptions += ["val_ratio on the rational grid p/20 so that round() is decided exactly",
                          "bit-level determinism of NumPy/torch generators (same seed => same stream) is NumPy's contract, not checked"]
    check.outside += ["n > 9 for the batcher (engine X realises n at np.arange)", "gradient equality through autograd (follows from the "
                      "decided loss identity by linearity of differentiation)",
                      "bit-identical loss histories across runs beyond the schedule: identical batches in identical order from identical "
                      "initial state give identical losses only if the numerical kernels are deterministic (stated, not checked)"]
    rnd = random.Random(seed())
    t = 300 if quick else 1800
    jobs = [dict(fn="partition__reach", timeout=60),
            dict(fn="subdivide", timeout=t * 2, key="subdivide_batches"),
            dict(fn="subdivide_num", timeout=t, key="subdivide_batches_num")]
    ps = sorted(rnd.sample(range(1, 20), 7)) + [0, 10] if quick else list(range(20))
    for n in range(1, nmax + 1):
        for mode in (False, True):
            for shuffle in (False, True):
                jobs.append(dict(fn="partition", fixed=dict(n=n, mode=mode, shuffle=shuffle, p_in=sorted(set(ps))),
                                 timeout=t, key=f"partition:n={n}"))
    run_jobs(check, FILE, jobs)
    # determinism clause at the level of the schedule: the real reconstruct / reset_recon / RNGMixin / SimpleBatcher control flow
    # with the numerical work of a step cut out; the generator is a deterministic function of (seed, draws so far)
    check.add_functions("Ptychography.reconstruct (control flow)", "Ptychography.reset_recon", "PtychographyBase.reset_recon",
                        "RNGMixin.rng setter / _reset_rng", "PtychographyBase.batch_size / val_ratio / val_mode / constraints setters",
                        "Ptychography._record_iter")
    check.bounds.update(schedule="n in 2..5 patterns, seeds 0..2, val_ratio in {0, 0.25, 0.4}, grid / random split, 0..2 earlier iterations "
                                 "with batch size 1..3, then reconstruct(reset=True) for 1..2 iterations with batch size 1..4")
    check.stubs += ["np.random.default_rng(seed) -> generator whose k-th permutation is a fixed function of (seed, k) (rotation by seed+k): "
                    "the determinism contract of NumPy's seeded generators", "torch.Generator -> inert stand-in",
                    "the numerical work of a reconstruction step (models' forward, forward_operator, backward, optimizers, schedulers, "
                    "propagators) -> no-ops; error_estimate -> a loss that fingerprints (step number, batch contents and order)",
                    "tqdm / gc -> inert (progress display and garbage collection are not part of the property)"]
    sjobs = [dict(fn="same_after_reset__reach", timeout=60)]
    for n in ((3, 4, 5) if quick else (2, 3, 4, 5)):
        for first_iters in (0, 1, 2):
            for mode in (False, True):
                sjobs.append(dict(fn="same_after_reset", fixed=dict(n=n, first_iters=first_iters, mode=mode), timeout=t,
                                  key="same_history_after_reset"))
    run_jobs(check, "harness/c09_schedule.py", sjobs)
    # engine S: the loss is a sum of per-pattern terms scaled by num_patterns / batch_size, so the mean of the batch losses
    # is the full-batch loss for every divisor (gradients follow by linearity of differentiation - stated, not queried)
    check.add_functions("PtychographyBase.error_estimate")
    decide_many(check, [(n, c, dict(o, key="loss_scaling")) for n, c, o in loss_cases()], timeout_s=120, validate=1, hard_timeout_s=400)
