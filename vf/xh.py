"""Engine X runner: CrossHair (symbolic execution + z3) over harness functions, in parallel."""
from __future__ import annotations

import concurrent.futures as cf
import json
import os
import re
import subprocess
import sys

from .common import DISCHARGED, ERROR, INCONCLUSIVE, VIOLATED, ROOT, Check

PY = sys.executable
NCPU = int(os.environ.get("VERIF_JOBS", str(os.cpu_count() or 4)))


def _run_worker(file, fn, timeout, fixed, per_path):
    cmd = [PY, "-m", "vf.xh_worker", str(file), fn, str(timeout), json.dumps(fixed or {})]
    if per_path:
        cmd.append(str(per_path))
    env = dict(os.environ, PYTHONHASHSEED="0")
    try:
        p = subprocess.run(cmd, cwd=ROOT, capture_output=True, text=True, env=env,
                           timeout=timeout * 3 + 180)
    except subprocess.TimeoutExpired:
        return dict(function=fn, fixed=fixed, messages=[], status="TIMEOUT", paths=0, queries=0,
                    solver_s=0.0, confirmed_paths=0, wall_s=timeout * 3 + 180, stderr="wall timeout")
    for line in p.stdout.splitlines():
        if line.startswith("XHRESULT "):
            r = json.loads(line[9:])
            r["stderr"] = p.stderr[-1500:]
            return r
    return dict(function=fn, fixed=fixed, messages=[], status="CRASH", paths=0, queries=0,
                solver_s=0.0, confirmed_paths=0, wall_s=0, stderr=(p.stdout + p.stderr)[-3000:])


_CALL = re.compile(r"when calling (.*?)(?: \(which (?:returns|raises).*\))?$", re.S)


def _call_of(message):
    m = _CALL.search(message)
    if not m:
        return None
    call = m.group(1).strip()
    # CrossHair may add "with crosshair.patch_to_return({time.time: [...]})" (it models the
    # clock); the replay runs with the real clock
    return call.split(" with crosshair.patch_to_return(")[0].strip()


def _replay(file, fn, call, fixed):
    """run the counterexample on the real code in a fresh interpreter; True = reproduced"""
    code = ("import sys; sys.path.insert(0, %r)\nfrom vf.replay import replay_xh\n"
            "sys.exit(replay_xh(%r, %r, %r, fixed=%r))\n" % (str(ROOT), str(file), fn, call, fixed or {}))
    p = subprocess.run([PY, "-c", code], cwd=ROOT, capture_output=True, text=True, timeout=600)
    if p.returncode not in (0, 1):
        return None, (p.stdout + p.stderr)[-1500:], code
    return p.returncode == 1, (p.stdout + p.stderr)[-1500:], code


def run_jobs(check: Check, file, jobs, key_of=None):
    """jobs: list of dict(fn, fixed=None, timeout=60, per_path=None, key=None).

    A function named `<x>__reach` is a vacuity twin: it has the same preconditions and body as
    `<x>` and the post-condition `False`; CrossHair must refute it (the assertion site is
    reachable under the preconditions)."""
    file = ROOT / file
    check.engines.add("crosshair-tool 0.0.110 (z3 %s)" % _z3_version())
    import threading
    lock = threading.Lock()

    def one(j):
        """run a job; while its counterexample is a *known* finding, exclude that case and
        explore the rest of the job's space again (so a different violation is still found)"""
        j = dict(j)
        for _ in range(12):
            r = _run_worker(file, j["fn"], j.get("timeout", 60), j.get("fixed"), j.get("per_path"))
            with lock:
                again = _classify(check, file, j, r)
            if not again:
                return
            fixed = dict(j.get("fixed") or {})
            fixed["exclude"] = list(fixed.get("exclude", [])) + [again]
            j["fixed"] = fixed

    with cf.ThreadPoolExecutor(max_workers=NCPU) as ex:
        for fut in cf.as_completed([ex.submit(one, j) for j in jobs]):
            fut.result()


def _z3_version():
    try:
        import z3
        return z3.get_version_string()
    except Exception:
        return "?"


def _args_of(call):
    import ast
    try:
        node = ast.parse(call, mode="eval").body
        return [ast.literal_eval(a) if not isinstance(a, ast.Call) else ast.unparse(a) for a in node.args]
    except Exception:
        return None


def _classify(check, file, j, r):
    """records the job's result; returns an argument tuple to exclude when the job should be
    re-run because its counterexample is a known finding, else None"""
    from .common import load_known
    import fnmatch
    fn, fixed = j["fn"], j.get("fixed") or {}
    name = fn + ("[" + ",".join(f"{k}={v}" for k, v in sorted(fixed.items())) + "]" if fixed else "")
    twin = fn.endswith("__reach")
    msgs = r.get("messages", [])
    states = [m["state"] for m in msgs]
    kw = dict(solver_s=r.get("solver_s", 0.0), paths=r.get("paths", 0), queries=r.get("queries", 0),
              engine="crosshair")
    sample = dict(harness=f"{os.path.basename(str(file))}:{name}", result=states,
                  paths=r.get("paths", 0), confirmed_paths=r.get("confirmed_paths", 0))
    fails = [m for m in msgs if m["state"] in ("POST_FAIL", "EXEC_ERR", "POST_ERR")]
    if twin:
        if fails:
            check.obligation("reach:" + name, DISCHARGED, detail=fails[0]["message"], trivial=True, **kw)
        elif "CONFIRMED" in states:
            check.obligation("reach:" + name, ERROR,
                             detail="vacuity guard: assertion site not reachable under the preconditions", **kw)
        else:
            check.obligation("reach:" + name, INCONCLUSIVE, detail=f"{states} {r.get('stderr', '')[-300:]}", **kw)
        return
    if fails:
        m = fails[0]
        call = _call_of(m["message"])
        if call is None:
            check.obligation(name, ERROR, detail="unparsable counterexample: " + m["message"], **kw)
            return
        ok, out, code = _replay(file, fn, call, fixed)
        if ok is None:
            check.obligation(name, ERROR, detail="replay could not be evaluated: " + call + "\n" + out[-600:], **kw)
            return
        check.witnesses.append(dict(harness=name, counterexample=call, message=m["message"][:300],
                                    reproduced_on_real_code=ok))
        if ok:
            path = check.write_replay(name + "_" + call,
                                      "#!/verif/.venv/bin/python\n# %s\n# exit 1 = violation reproduces on the real code\n%s"
                                      % (m["message"].replace("\n", " ")[:300], code))
            key = (j.get("key") or fn)
            args = _args_of(call)
            if j.get("key_fn") and args is not None:
                key = j["key_fn"](args)
            check.obligation(name, VIOLATED, detail=m["message"], sample=sample, **kw)
            check.violation(key, f"{call}: {m['message'][:200]}", path)
            if j.get("exclude") and args is not None and any(
                    k.get("status") == "known" and k.get("property") == check.pid
                    and fnmatch.fnmatchcase(key, k["key"]) for k in load_known()):
                return [args[i] for i in j["exclude"]]
        else:
            check.obligation(name, ERROR, detail="counterexample does not reproduce on the real code: "
                             + call + "\n" + out[-600:], **kw)
        return
    if states and all(s == "CONFIRMED" for s in states):
        check.obligation(name, DISCHARGED, detail=f"Confirmed over all paths ({r.get('paths')} paths)",
                         sample=sample, **kw)
        return
    detail = "; ".join(f"{m['state']}: {m['message']}" for m in msgs) or r.get("status", "")
    if r.get("status") in ("CRASH", "TIMEOUT") or "IMPORT_ERR" in states or "SYNTAX_ERR" in states:
        check.obligation(name, ERROR, detail=detail + " " + r.get("stderr", "")[-1200:], **kw)
    else:
        check.obligation(name, INCONCLUSIVE, detail=detail + f" (paths={r.get('paths')})", **kw)
