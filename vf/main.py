from __future__ import annotations

import argparse
import importlib
import os
import subprocess
import sys
import traceback

from .common import Check, ROOT


def main():
    ap = argparse.ArgumentParser()
    ap.add_argument("pid")
    ap.add_argument("--tier", default=os.environ.get("VERIF_TIER", "quick"), choices=["quick", "thorough"])
    ap.add_argument("--replay")
    a = ap.parse_args()
    if a.replay:
        sys.exit(subprocess.run([sys.executable, a.replay], cwd=ROOT).returncode)
    pid = a.pid.upper()
    mod = importlib.import_module(f"vf.checks.{pid.lower()}")
    check = Check(pid, a.tier, getattr(mod, "TECHNIQUE", ""))
    try:
        mod.run(check, a.tier)
    except Exception:
        check.error("check crashed: " + traceback.format_exc())
    sys.exit(check.finish())


if __name__ == "__main__":
    main()
