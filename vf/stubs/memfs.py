"""In-memory file system + zarr-v3-on-LocalStore layout model with a fault counter.

Stands in for the names `os, shutil, tempfile, zarr, LocalStore, ZipFile` inside
quantem.core.io.serialize so that the real save()/load() run under CrossHair without I/O.
Contract modelled (checked against the real stores by the per-run validation):
  * one file `<dir>/zarr.json` per group (attributes as their JSON image), one
    `<dir>/<name>/zarr.json` per array (+ one chunk file `<dir>/<name>/c` when the data is
    not all fill-value);
  * attributes of a Group object are cached in memory and the whole mapping is re-encoded
    on every assignment: a value JSON cannot encode raises TypeError and stays in the cache;
  * JSON image: tuple -> list, dict keys -> str, int/float/str/bool/None unchanged
    (NaN/Infinity allowed), anything else TypeError;
  * every mutating call ticks a counter and raises Fault (an OSError) when it equals `k`.
"""
from __future__ import annotations

import copy
import posixpath
import types

import numpy as np


try:                                    # CrossHair's tracer makes plain dict/tuple bookkeeping ~100x slower;
    from crosshair.tracers import NoTracing as _NoTracing, is_tracing as _is_tracing
except Exception:  # pragma: no cover
    _NoTracing = None


def untraced(fn):
    """run bookkeeping that only touches concrete data (paths, file table) outside CrossHair's
    tracer. Never used where a symbolic value is inspected (tick's fault comparison, jsonify)."""
    if _NoTracing is None:
        return fn
    import functools

    @functools.wraps(fn)
    def wrapper(*a, **k):
        if _is_tracing():
            with _NoTracing():
                return fn(*a, **k)
        return fn(*a, **k)
    return wrapper


class Fault(OSError):
    pass


class FaultInterrupt(KeyboardInterrupt):
    """a failure that is not an Exception (Ctrl-C while saving)"""


class ContainsArrayError(ValueError):
    pass


class BadZipFile(Exception):
    pass


def jsonify(v):
    if v is None or isinstance(v, (bool, int, float, str)):
        if isinstance(v, np.generic) and not isinstance(v, (float, str)):
            raise TypeError(f"Object of type {type(v).__name__} is not JSON serializable")
        return v
    if isinstance(v, (list, tuple)):
        return [jsonify(x) for x in v]
    if isinstance(v, dict):
        out = {}
        for k, x in v.items():
            if isinstance(k, str):
                ks = k
            elif k is True:
                ks = "true"
            elif k is False:
                ks = "false"
            elif k is None:
                ks = "null"
            elif isinstance(k, (int, float)):
                ks = repr(k) if isinstance(k, float) else str(k)
            else:
                raise TypeError(f"keys must be str, int, float, bool or None, not {type(k).__name__}")
            out[ks] = jsonify(x)
        return out
    raise TypeError(f"Object of type {type(v).__name__} is not JSON serializable")


class P(tuple):
    """a path as a tuple of components: no string parsing is ever needed on names that may
    be symbolic (attribute names, dict keys)"""

    def __str__(self):
        return "/" + "/".join(str(c) for c in self)

    __repr__ = __str__

    def __add__(self, other):
        return P(tuple(self) + tuple(other))


def _p(x):
    if isinstance(x, P):
        return x
    if isinstance(x, tuple):
        return P(x)
    return P(c for c in str(x).split("/") if c != "")


def _under(f, d):
    return len(f) > len(d) and f[:len(d)] == d


class FS:
    @untraced
    def __init__(self, k=-1):
        self.files = {}                     # P -> content (never mutated in place)
        self.dirs = {P(()), P(("tmp",)), P(("work",))}
        self.n = 0                          # mutating operations so far
        self.k = k                          # raise at the k-th one (k < 1: never)
        self._tmp = 0
        self.log = []

    # ---- fault counter
    # fault positions = the serializer's value / array / byte writes and the zip (or directory)
    # assembly, as the property quantifies; removals and clean-up are never made to fail
    NOFAULT = ("remove", "rmtree", "makedirs", "delete", "mkdtemp", "mkstemp")

    def tick(self, what=""):
        if what in self.NOFAULT:
            return
        self.n += 1
        if self.n == self.k:
            raise (FaultInterrupt if getattr(self, "interrupt", False) else Fault)("injected fault at a write operation")

    # ---- raw state
    def snapshot(self):
        return dict(self.files), set(self.dirs)

    @untraced
    def _mkparents(self, p):
        for i in range(1, len(p) + 1):
            self.dirs.add(P(p[:i]))

    def write(self, p, content, what="write"):
        self.tick(what)
        self._put(p, content)

    @untraced
    def _put(self, p, content):
        self._mkparents(p[:-1])
        self.files[p] = content

    @untraced
    def get(self, p, default=None):
        return self.files.get(p, default)

    @untraced
    def has(self, p):
        return p in self.files

    @untraced
    def _rm_tree(self, p):
        for f in [f for f in self.files if _under(f, p)]:
            del self.files[f]
        for d in [d for d in self.dirs if d == p or _under(d, p)]:
            self.dirs.discard(d)

    # ---- os / shutil / tempfile surface used by serialize.py
    @untraced
    def exists(self, p):
        p = _p(p)
        return p in self.files or p in self.dirs

    @untraced
    def isdir(self, p):
        return _p(p) in self.dirs

    def remove(self, p):
        p = _p(p)
        if p not in self.files:
            raise FileNotFoundError(str(p))
        self.tick("remove")
        del self.files[p]

    def rmtree(self, p, ignore_errors=False):
        p = _p(p)
        if p not in self.dirs:
            if ignore_errors:
                return
            raise FileNotFoundError(str(p))
        self.tick("rmtree")
        self._rm_tree(p)

    def makedirs(self, p, exist_ok=False):
        p = _p(p)
        if p in self.dirs:
            if not exist_ok:
                raise FileExistsError(str(p))
            return
        if p in self.files:
            raise FileExistsError(str(p))
        self.tick("makedirs")
        self._mkparents(p)

    @untraced
    def walk(self, top):
        top = _p(top)
        ds = [d for d in self.dirs if d == top or _under(d, top)]
        out = []
        for d in ds:
            subs = [x[-1] for x in self.dirs if len(x) == len(d) + 1 and x[:len(d)] == d]
            fns = [f[-1] for f in self.files if len(f) == len(d) + 1 and f[:len(d)] == d]
            out.append((d, subs, fns))
        return out

    def mkdtemp(self, suffix="", prefix="tmp", dir=None):
        self._tmp += 1
        if dir is None:
            p = P(("tmp", f"t{self._tmp}"))
        else:
            p = _p(dir) + (f"{prefix}{self._tmp:04d}{suffix}",)
            if not self.isdir(_p(dir)):
                raise FileNotFoundError(str(dir))
        self._mkparents(p)
        return p

    def mkstemp(self, suffix="", prefix="tmp", dir=None):
        self._tmp += 1
        d = P(("tmp",)) if dir is None else _p(dir)
        if not self.isdir(d):
            raise FileNotFoundError(str(d))
        p = d + (f"{prefix}{self._tmp:04d}{suffix}",)
        self._put(p, b"")
        return 3, p

    def replace(self, a, b):
        """os.replace / os.rename: atomic; a directory can only replace an empty directory"""
        a, b = _p(a), _p(b)
        if not self.exists(a):
            raise FileNotFoundError(str(a))
        if self.isdir(a):
            if b in self.files:
                raise NotADirectoryError(str(b))
            if b in self.dirs and any(_under(x, b) for x in list(self.files) + list(self.dirs)):
                raise OSError("Directory not empty: " + str(b))
        elif b in self.dirs:
            raise IsADirectoryError(str(b))
        self.tick("rename")
        self._move(a, b)

    @untraced
    def _move(self, a, b):
        if a in self.files:
            self.files[b] = self.files.pop(a)
            return
        for f in [f for f in self.files if _under(f, a)]:
            self.files[b + f[len(a):]] = self.files.pop(f)
        for d in [d for d in self.dirs if d == a or _under(d, a)]:
            self.dirs.discard(d)
            self.dirs.add(b + d[len(a):])


class _TmpDir:
    """tempfile.TemporaryDirectory: not counted as a mutating operation on user-visible paths"""

    def __init__(self, fs):
        self.fs = fs
        self.name = fs.mkdtemp()

    def __enter__(self):
        return self.name

    def __exit__(self, *a):
        self.cleanup()
        return False

    def cleanup(self):
        self.fs._rm_tree(self.name)


class Meta:
    """content of a zarr.json (group or array) / of a zip file; plain attributes so that the
    untraced bookkeeping never has to look inside a CrossHair container"""
    __slots__ = ("kind", "attrs", "shape", "dtype", "members", "closed")

    def __init__(self, kind, attrs=None, shape=None, dtype=None, members=None, closed=False):
        self.kind, self.attrs, self.shape, self.dtype = kind, ({} if attrs is None else attrs), shape, dtype
        self.members, self.closed = members, closed

    def replace(self, **kw):
        m = Meta(self.kind, self.attrs, self.shape, self.dtype, self.members, self.closed)
        for k, v in kw.items():
            setattr(m, k, v)
        return m

    def __eq__(self, other):
        return (isinstance(other, Meta) and self.kind == other.kind and self.attrs == other.attrs
                and self.shape == other.shape and self.dtype == other.dtype
                and self.members == other.members and self.closed == other.closed)

    __hash__ = None

    def __repr__(self):
        return f"Meta({self.kind}, attrs={self.attrs}, shape={self.shape}, members={self.members and list(self.members)})"


class Attrs:
    def __init__(self, fs, path):
        self.fs = fs
        self.path = path
        self._cache = dict(fs.files[path].attrs)
        self._image = dict(fs.files[path].attrs)     # JSON image of the cache, kept incrementally
        self._poisoned = None

    def __setitem__(self, k, v):
        self._cache[k] = v
        if self._poisoned is not None:               # a value JSON cannot encode stays in the cache:
            raise TypeError(self._poisoned)          # every later write of this Group object fails too
        try:
            self._image[k] = jsonify(v)
        except TypeError as e:
            self._poisoned = str(e)
            raise
        image = dict(self._image)
        self.fs.write(self.path, self.fs.files[self.path].replace(attrs=image), what="attrs")

    def __getitem__(self, k):
        return self._cache[k]

    def __contains__(self, k):
        return k in self._cache

    def __iter__(self):
        return iter(list(self._cache))

    def __len__(self):
        return len(self._cache)

    def get(self, k, default=None):
        return self._cache.get(k, default)

    def items(self):
        return list(self._cache.items())

    def keys(self):
        return list(self._cache.keys())

    def asdict(self):
        return dict(self._cache)


_OK_KINDS = "biufcUSMm?"


def _fill(shape, dtype):
    return np.zeros(shape, dtype=dtype)


class Arr:
    def __init__(self, fs, d):
        self.fs = fs
        self.d = d
        self.attrs = Attrs(fs, d + ("zarr.json",))
        self.path = str(d)

    def _m(self):
        return self.fs.files[self.d + ("zarr.json",)]

    @property
    def shape(self):
        return self._m().shape

    @property
    def ndim(self):
        return len(self.shape)

    @property
    def dtype(self):
        return self._m().dtype

    def __setitem__(self, k, v):
        cur = self.fs.files.get(self.d + ("c",))
        a = _fill(self.shape, self.dtype) if cur is None else cur.copy()
        a[k] = v
        if a.size == 0 or not np.any(a != _fill((), self.dtype)):
            if cur is not None:
                self.fs.tick("delete")
                del self.fs.files[self.d + ("c",)]
            return                                   # all fill value: zarr writes no chunk
        self.fs.write(self.d + ("c",), a, what="chunk")

    def __getitem__(self, k):
        a = self.fs.files.get(self.d + ("c",))
        if a is None:
            a = _fill(self.shape, self.dtype)        # zarr fill value when the chunk is missing
        r = a[k]
        return r.copy() if isinstance(r, np.ndarray) else r


class Grp:
    def __init__(self, fs, d):
        self.fs = fs
        self.d = d
        self.attrs = Attrs(fs, d + ("zarr.json",))
        self.path = str(d)

    @untraced
    def _kids(self, kind):
        out = []
        n = len(self.d)
        for f, m in self.fs.files.items():
            if (len(f) == n + 2 and f[-1] == "zarr.json" and f[:n] == self.d
                    and isinstance(m, Meta) and m.kind == kind):
                out.append(f[-2])
        return out

    def group_keys(self):
        return iter(self._kids("group"))

    def array_keys(self):
        return iter(self._kids("array"))

    def require_group(self, name):
        p = self.d + (name, "zarr.json")
        m = self.fs.files.get(p)
        if m is None:
            self.fs.write(p, Meta("group"), what="group")
        elif m.kind != "group":
            raise ContainsArrayError(p)
        return Grp(self.fs, self.d + (name,))

    def create_array(self, name, shape, dtype, compressors=None):
        p = self.d + (name, "zarr.json")
        if p in self.fs.files:
            raise ContainsArrayError(f"An array exists in store at path {name!r}")
        dt = np.dtype(dtype)
        if dt.kind not in _OK_KINDS or dt.kind == "O":
            raise ValueError(f"No Zarr data type found that matches dtype {dt!r}")
        self.fs.write(p, Meta("array", shape=tuple(int(s) for s in shape), dtype=dt), what="array")
        return Arr(self.fs, self.d + (name,))

    def __getitem__(self, k):
        m = self.fs.files.get(self.d + (k, "zarr.json"))
        if m is None:
            raise KeyError(k)
        return Grp(self.fs, self.d + (k,)) if m.kind == "group" else Arr(self.fs, self.d + (k,))

    def __contains__(self, k):
        return (self.d + (k, "zarr.json")) in self.fs.files


class _Zip:
    def __init__(self, fs, path, mode="r"):
        self.fs = fs
        path = _p(path)
        self.path = path
        self.mode = mode
        if mode == "w":
            if path in fs.dirs:
                raise IsADirectoryError(path)
            fs.write(path, Meta("zip", members={}, closed=False), what="zip create")
        else:
            if path in fs.dirs:
                raise IsADirectoryError(path)
            if path not in fs.files:
                raise FileNotFoundError(path)
            z = fs.files[path]
            if not isinstance(z, Meta) or z.kind != "zip" or not z.closed:
                raise BadZipFile("File is not a zip file")

    def __enter__(self):
        return self

    def __exit__(self, *a):
        self.close()
        return False

    def close(self):
        if self.mode == "w":
            self.fs.write(self.path, self.fs.files[self.path].replace(closed=True), what="zip close")

    def write(self, full, arcname=None):
        self.fs.write(self.path, self._with_member(_p(arcname), _p(full)), what="zip member")

    @untraced
    def _with_member(self, arc, full):
        z = self.fs.files[self.path]
        members = dict(z.members)
        members[arc] = self.fs.files[full]
        return z.replace(members=members)

    def namelist(self):
        return ["/".join(str(c) for c in arc) for arc in self.fs.files[self.path].members]

    def infolist(self):
        return [types.SimpleNamespace(filename=n) for n in self.namelist()]

    def extract(self, member, path=None):
        self.extractall(path, members=[member])

    @untraced
    def extractall(self, dest, members=None):
        z = self.fs.files[self.path]
        dest = _p(dest)
        keep = None if members is None else {_p(getattr(m, "filename", m)) for m in members}
        for arc, c in z.members.items():
            if keep is not None and arc not in keep:
                continue
            self.fs.files[dest + arc] = c
            self.fs._mkparents((dest + arc)[:-1])


def install(fs):
    """replacement module globals for quantem.core.io.serialize"""
    def join(a, *rest):
        return _p(a) + P(rest)

    def relpath(full, start):
        full, start = _p(full), _p(start)
        assert full[:len(start)] == start
        return P(full[len(start):])

    def dirname(p):
        p = _p(p)
        return P(p[:-1]) if isinstance(p, P) and len(p) else p

    def basename(p):
        return _p(p)[-1]

    def abspath(p):
        return _p(p)

    os_path = types.SimpleNamespace(exists=fs.exists, isdir=fs.isdir, join=join, relpath=relpath,
                                    splitext=lambda p: posixpath.splitext(str(p)), dirname=dirname,
                                    basename=basename, abspath=abspath, isfile=lambda p: _p(p) in fs.files)
    os_ = types.SimpleNamespace(path=os_path, remove=fs.remove, walk=fs.walk, makedirs=fs.makedirs,
                                replace=fs.replace, rename=fs.replace, close=lambda fd: None, unlink=fs.remove,
                                getpid=lambda: 4242, fspath=lambda p: str(p))
    def copytree(src, dst, dirs_exist_ok=False, **k):
        src, dst = _p(src), _p(dst)
        if dst in fs.dirs and not dirs_exist_ok:
            raise FileExistsError(str(dst))
        fs.tick("copytree")
        fs._mkparents(dst)
        for d in [d for d in list(fs.dirs) if d == src or _under(d, src)]:
            fs.dirs.add(dst + d[len(src):])
        for f in [f for f in list(fs.files) if _under(f, src)]:
            fs.files[dst + f[len(src):]] = fs.files[f]
        return dst

    def copyfile(src, dst, **k):
        src, dst = _p(src), _p(dst)
        if src not in fs.files:
            raise FileNotFoundError(str(src))
        fs.write(dst, fs.files[src], what="copy")
        return dst

    def make_archive(base_name, format="zip", root_dir=None, base_dir=None, **k):
        """shutil.make_archive(format='zip'): opens <base_name>.zip for writing *at its final place* (truncating what is
        there), adds the files below root_dir one by one and closes the archive also when a write fails"""
        if format != "zip":
            raise NotImplementedError(format)
        target = str(base_name) + ".zip"
        root = _p(root_dir)
        with _Zip(fs, target, "w") as zf:
            for dirpath, _dirs, filenames in fs.walk(root):
                for fn in filenames:
                    full = _p(dirpath) + P((fn,))
                    zf.write(full, arcname=P(full[len(root):]))
        return target

    shutil_ = types.SimpleNamespace(rmtree=fs.rmtree, move=fs.replace, copytree=copytree, copyfile=copyfile, copy=copyfile,
                                    copy2=copyfile, make_archive=make_archive)
    tempfile_ = types.SimpleNamespace(TemporaryDirectory=lambda *a, **k: _TmpDir(fs), mkdtemp=fs.mkdtemp,
                                      mkstemp=fs.mkstemp)

    def group(store=None, overwrite=False):
        d = _p(store)
        meta = d + ("zarr.json",)
        if overwrite:
            fs.tick("group")
            fs._rm_tree(d)
            fs._mkparents(d)
            fs._put(meta, Meta("group"))
        elif meta not in fs.files:
            fs.write(meta, Meta("group"), what="group create")
        elif fs.files[meta].kind != "group":
            raise ContainsArrayError(str(d))
        return Grp(fs, d)

    zarr_ = types.SimpleNamespace(group=group, Group=Grp, Array=Arr)
    return dict(os=os_, shutil=shutil_, tempfile=tempfile_, zarr=zarr_,
                LocalStore=lambda p: _p(p), ZipFile=lambda p, mode="r": _Zip(fs, p, mode))
