"""Engine S driver: a *claim* is a Python function `claim(I)` that builds its inputs through `I`
(symbolic terms in "sym" mode, real float arrays in "num" mode), calls the repository's real
functions on them and returns a list of relations (label, lhs, rhs[, opts]) that the property
asserts. In sym mode every relation is decided by z3 over all admissible inputs; a model is
replayed in num mode against the real NumPy/torch before it is reported; the symbolic library
model itself is validated on every run by comparing sym-mode terms, evaluated at random concrete
inputs, with the num-mode results (Serval-style)."""
from __future__ import annotations

import math
import random
import time
import traceback
from fractions import Fraction

import numpy as np
import z3

from ..common import DISCHARGED, ERROR, INCONCLUSIVE, VIOLATED, seed
from . import core
from .core import B, Ctx, PathAbort, S, Unsupported, to_S
from .npx import SymArray, lift, patched_np


class Rel:
    def __init__(self, label, lhs, rhs, op="eq", tol=None, ntol=1e-7):
        self.label, self.lhs, self.rhs, self.op, self.tol, self.ntol = label, lhs, rhs, op, tol, ntol


class Inputs:
    def __init__(self, mode, ctx=None, values=None, rnd=None):
        self.mode = mode
        self.ctx = ctx
        self.values = values if values is not None else {}
        self.rnd = rnd or random.Random(0)
        self.decl = []                      # (name, lo, hi, positive, nonneg, kind)
        self.torch_mode = False

    # ---- scalars
    def _num(self, name, lo, hi, positive, nonneg, integer=False):
        if name in self.values:
            return float(self.values[name])
        a = -1.0 if lo is None else float(lo)
        b = 1.0 if hi is None else float(hi)
        if lo is None and hi is not None:
            a = b - 2.0
        if hi is None and lo is not None:
            b = a + 2.0
        if positive:
            a = max(a, 0.05)
            b = max(b, a + 1.0)
        if nonneg:
            a = max(a, 0.0)
            b = max(b, a + 1.0)
        v = self.rnd.uniform(a, b)
        self.values[name] = v
        return v

    def real(self, name, lo=None, hi=None, positive=False, nonneg=False):
        self.decl.append(name)
        if self.mode == "sym":
            return self.ctx.real(name, lo, hi, positive, nonneg)
        return self._num(name, lo, hi, positive, nonneg)

    def angle(self, name, unit=1):
        self.decl.append(name)
        if self.mode == "sym":
            return self.ctx.angle(name, unit)
        return self._num(name, -3.0, 3.0, False, False)

    def cplx(self, name, box=(-1, 1)):
        if self.mode == "sym":
            a = self.real(name + ".re", *box)
            b = self.real(name + ".im", *box)
            return S(a.re, b.re)
        return complex(self.real(name + ".re", *box), self.real(name + ".im", *box))

    # ---- arrays
    def array(self, name, shape, kind="real", lo=-1, hi=1, positive=False, nonneg=False):
        shape = tuple(shape)
        out = np.empty(shape, dtype=object)
        for idx in np.ndindex(*shape):
            nm = f"{name}[{','.join(map(str, idx))}]"
            out[idx] = self.cplx(nm, (lo, hi)) if kind == "complex" else self.real(nm, lo, hi, positive, nonneg)
        if self.mode == "sym":
            return out.view(SymArray)
        return out.astype(complex if kind == "complex" else float)

    def set_array(self, name, arr):
        """num mode: the values actually used (e.g. after projecting onto a precondition)"""
        for idx in np.ndindex(*arr.shape):
            nm = f"{name}[{','.join(map(str, idx))}]"
            v = complex(arr[idx])
            if nm + ".re" in self.values:
                self.values[nm + ".re"], self.values[nm + ".im"] = v.real, v.imag
            else:
                self.values[nm] = v.real

    def tensor(self, name, shape, kind="real", **kw):
        """array as a (symbolic or real float64/complex128) tensor"""
        a = self.array(name, shape, kind, **kw)
        if self.mode == "sym":
            from .torchx import SymTensor
            return SymTensor(a, cplx=True if kind == "complex" else None)
        import torch
        return torch.from_numpy(np.ascontiguousarray(a))

    def tscalar(self, x):
        """0-d tensor from a scalar made by real()/angle()"""
        if self.mode == "sym":
            from .torchx import SymTensor
            return SymTensor(x)
        import torch
        return torch.tensor(x, dtype=torch.float64)

    def patch_torch(self, *modules):
        if self.mode == "sym":
            from .torchx import patched_torch
            return patched_torch(*modules)
        return _Null()

    def assume(self, cond):
        if self.mode == "sym":
            self.ctx.assume(cond)

    def const_array(self, a):
        """a concrete array that takes part in symbolic arithmetic"""
        return a

    def patch(self, *modules, overrides=None):
        if self.mode == "sym":
            return patched_np(*modules, overrides=overrides)
        return _Null()


class _Null:
    def __enter__(self):
        return None

    def __exit__(self, *a):
        return False


def _flat(x):
    """lhs/rhs -> flat list of S (sym) or complex (num)"""
    if isinstance(x, (list, tuple)):
        out = []
        for y in x:
            out += _flat(y)
        return out
    if hasattr(x, "_sym_array"):          # SymTensor
        x = x._sym_array()
    try:
        import torch
        if isinstance(x, torch.Tensor):
            x = x.detach().cpu().numpy()
    except ImportError:  # pragma: no cover
        pass
    if isinstance(x, np.ndarray):
        return list(x.reshape(-1))
    return [x]


def _diff_claim(a: S, b: S, op, tol):
    """z3 formula of the *negated* relation a op b"""
    if op == "eq":
        d_re = core._z(core._sub(a.re, b.re))
        d_im = core._z(core._sub(a.im, b.im))
        if tol:
            t = core._z(core._frac(tol))
            bad = [d_re > t, d_re < -t]
            if not (a.is_real and b.is_real):
                bad += [d_im > t, d_im < -t]
            return z3.Or(*bad)
        bad = [d_re != 0]
        if not (a.is_real and b.is_real):
            bad.append(d_im != 0)
        return z3.Or(*bad)
    t = core._z(core._frac(tol or 0))
    if op == "le":
        return core._z(a.re) > core._z(b.re) + t
    if op == "lt":
        return core._z(a.re) >= core._z(b.re) + t
    if op == "ge":
        return core._z(a.re) < core._z(b.re) - t
    raise ValueError(op)


def _num_bad(a, b, op, ntol):
    a, b = complex(a), complex(b)
    scale = max(1.0, abs(a), abs(b))
    if op == "eq":
        return abs(a - b) > ntol * scale
    if op == "le":
        return a.real > b.real + ntol * scale
    if op == "lt":
        return a.real >= b.real + ntol * scale
    if op == "ge":
        return a.real < b.real - ntol * scale
    raise ValueError(op)


def _is_trivial(f):
    return z3.is_false(z3.simplify(f))


def _assignment(ctx, model):
    out = {}
    for name, v in ctx.symbols.items():
        val = model.eval(v, model_completion=True)
        try:
            out[name] = float(core._q(val))
        except Unsupported:
            out[name] = 0.0
    # an angle input is only constrained through its (cos, sin) atoms: read the angle off them
    for vid, (v, unit, c, s) in ctx.angles.items():
        try:
            cv = float(core._q(model.eval(c, model_completion=True)))
            sv = float(core._q(model.eval(s, model_completion=True)))
            out[str(v)] = math.atan2(sv, cv) / float(unit)
        except Unsupported:
            pass
    return out


def run_paths(claim, ctx, max_paths=64):
    """explore all feasible decision paths of the claim under ctx; yields (decisions, rels)"""
    work = [[]]
    n = 0
    while work:
        prefix = work.pop()
        n += 1
        if n > max_paths:
            raise Unsupported(f"more than {max_paths} data-dependent paths")
        ctx.decisions, ctx.prefix, ctx.pending = [], list(prefix), []
        try:
            rels = claim(Inputs("sym", ctx))
        except PathAbort:
            work += ctx.pending
            continue
        work += ctx.pending
        yield list(ctx.decisions), rels


def decide(check, name, claim, *, logic=None, timeout_s=60, validate=2, max_paths=64, key=None, tol_default=None,
           expect_reachable=True, decide_logic=None):
    """decide one claim; records obligations on `check` (one per relation label and path)"""
    t_start = time.time()
    _CROSS_BUDGET["left"] = None
    rnd = random.Random(f"{seed()}:{name}")
    ctx = Ctx(name)
    ctx.inexact = False
    ctx.decide_logic = decide_logic
    n_rel = 0
    try:
        with ctx:
            paths = list(run_paths(claim, ctx, max_paths))
            if not paths:
                check.obligation(name, ERROR, detail="vacuity guard: no feasible path reaches the assertions", engine="symnum")
                return
            for pi, (decisions, rels) in enumerate(paths):
                pc = [t if v else z3.Not(t) for t, v in decisions]
                # group the relations by label: one query per label
                groups = {}
                for r in rels:
                    r = r if isinstance(r, Rel) else Rel(*r)
                    groups.setdefault(r.label, []).append(r)
                for label, rs in groups.items():
                    n_rel += 1
                    oname = f"{name}:{label}" + (f"#path{pi}" if len(paths) > 1 else "")
                    _decide_group(check, ctx, oname, name, label, rs, pc, claim, logic, timeout_s, key, tol_default)
            if validate:
                _validate(check, ctx, name, claim, validate, rnd)
    except Unsupported as e:
        check.obligation(name, INCONCLUSIVE, detail=f"symbolic library model: {e}", engine="symnum")
    except Exception:
        check.obligation(name, ERROR, detail="claim crashed in symbolic mode: " + traceback.format_exc()[-1500:], engine="symnum")
    check.paths += 0


_CROSS_BUDGET = {"left": None}


def _second_solver(check, solver, dt):
    """cross-check of an unsat verdict with cvc5 on the SMT-LIB text of the very query z3 answered (a few queries per claim,
    cheap ones only): 'agree' / 'no_answer' (unknown, time-out, parse problem) / 'disagree' (cvc5 says sat)"""
    import os
    if os.environ.get("VERIF_CVC5", "1") == "0":
        return None
    if _CROSS_BUDGET["left"] is None:
        _CROSS_BUDGET["left"] = 2 if check.tier == "quick" else 5
    if _CROSS_BUDGET["left"] <= 0 or dt > 5.0:
        return None
    _CROSS_BUDGET["left"] -= 1
    try:
        import cvc5
        text = "\n".join(ln for ln in solver.to_smt2().splitlines() if not ln.startswith("(set-logic"))
        slv = cvc5.Solver()
        slv.setOption("tlimit-per", "10000")
        slv.setLogic("ALL")
        prs = cvc5.InputParser(slv)
        prs.setStringInput(cvc5.InputLanguage.SMT_LIB_2_6, text, "query")
        sm = prs.getSymbolManager()
        answers = []
        while True:
            cmd = prs.nextCommand()
            if cmd.isNull():
                break
            out = str(cmd.invoke(slv, sm)).strip()
            if out:
                answers.append(out)
        verdict = answers[-1] if answers else "none"
    except Exception as e:  # noqa: BLE001
        verdict = f"error {type(e).__name__}"
    res = "agree" if verdict == "unsat" else ("disagree" if verdict == "sat" else "no_answer")
    check.cross[res] = check.cross.get(res, 0) + 1
    return res


def _decide_group(check, ctx, oname, cname, label, rs, pc, claim, logic, timeout_s, key, tol_default):
    bad = []
    n_el = 0
    for r in rs:
        L, R = _flat(r.lhs), _flat(r.rhs)
        if len(R) == 1 and len(L) > 1:
            R = R * len(L)
        if len(L) != len(R):
            check.obligation(oname, ERROR, detail=f"shape mismatch lhs {len(L)} vs rhs {len(R)}", engine="symnum")
            return
        tol = r.tol if r.tol is not None else (tol_default if (tol_default and getattr(ctx, "inexact", False)) else None)
        for a, b in zip(L, R):
            f = _diff_claim(to_S(a), to_S(b), r.op, tol)
            n_el += 1
            bad.append(f)
    sample = dict(obligation=oname, elements=n_el, nontrivial_elements=len(bad),
                  inputs=len(ctx.symbols), path_condition=[str(p)[:80] for p in pc][:4])
    s = ctx.solver(logic, int(timeout_s * 1000), focus=bad + pc)
    s.add(*pc)
    s.add(z3.Or(*bad) if len(bad) > 1 else bad[0])
    t = time.perf_counter()
    r = s.check()
    dt = time.perf_counter() - t
    if r == z3.unsat:
        if _second_solver(check, s, dt) == "disagree":
            check.obligation(oname, INCONCLUSIVE, detail="z3 answers unsat, cvc5 answers sat on the same SMT-LIB text", solver_s=dt,
                             queries=2, paths=1, engine="symnum")
            return
        check.obligation(oname, DISCHARGED, detail=f"unsat over {len(ctx.symbols)} symbolic inputs, {n_el} elements",
                         solver_s=dt, queries=1, paths=1, engine="symnum", sample=sample)
        return
    if r == z3.unknown:
        check.obligation(oname, INCONCLUSIVE, detail=f"solver: unknown ({s.reason_unknown()}) after {dt:.1f}s", solver_s=dt,
                         queries=1, paths=1, engine="symnum")
        return
    asg = _assignment(ctx, s.model())
    ok, detail = replay(claim, asg, label)
    check.witnesses.append(dict(claim=oname, assignment={k: round(v, 6) for k, v in list(asg.items())[:24]},
                                reproduced_on_real_code=ok, detail=detail[:300]))
    if ok:
        body = ("#!/verif/.venv/bin/python\n# counterexample found by z3 for %s; replays the claim on the real NumPy/torch\n"
                "import sys; sys.path.insert(0, '/verif')\nfrom vf.sym.claims import replay_main\n"
                "sys.exit(replay_main(%r, %r, %r, %r))\n" % (oname, check.pid, cname, label, asg))
        path = check.write_replay(oname, body)
        check.obligation(oname, VIOLATED, detail=detail, solver_s=dt, queries=1, paths=1, engine="symnum", sample=sample)
        check.violation(key or oname, f"{oname}: {detail[:200]}", path)
    else:
        check.obligation(oname, ERROR, detail="solver counterexample does not reproduce on the real code (model of the "
                         "library or of a transcendental function too weak): " + detail[:400], solver_s=dt, queries=1,
                         paths=1, engine="symnum")


def replay(claim, assignment, label=None):
    """run the claim on the real libraries at the solver's assignment; True if a relation fails"""
    I = Inputs("num", values=dict(assignment))
    try:
        rels = claim(I)
    except Exception:
        return True, "real code raised: " + traceback.format_exc()[-600:]
    worst = None
    for r in rels:
        r = r if isinstance(r, Rel) else Rel(*r)
        if label is not None and r.label != label:
            continue
        L, R = _flat(r.lhs), _flat(r.rhs)
        if len(R) == 1 and len(L) > 1:
            R = R * len(L)
        for i, (a, b) in enumerate(zip(L, R)):
            if _num_bad(a, b, r.op, r.ntol):
                worst = f"{r.label}[{i}]: lhs={complex(a):.6g} {r.op} rhs={complex(b):.6g} fails"
                return True, worst
    return False, "all relations hold numerically at the assignment"


CLAIMS = {}


def register(pid, name, claim):
    CLAIMS[(pid, name)] = claim


def replay_main(pid, cname, label, assignment):
    import importlib
    importlib.import_module(f"vf.checks.{pid.lower()}")
    claim = CLAIMS[(pid, cname)]
    ok, detail = replay(claim, assignment, label)
    print("replay:", detail)
    return 1 if ok else 0


# ----------------------------------------------------------------------------------------- validation
def _eval_float(t, env, memo):
    """float value of a z3 term under env {ast id: float}"""
    i = t.get_id()
    if i in memo:
        return memo[i]
    if i in env:
        memo[i] = env[i]
        return env[i]
    if z3.is_rational_value(t) or z3.is_int_value(t) or z3.is_algebraic_value(t):
        v = float(core._q(t))
    elif z3.is_true(t):
        v = True
    elif z3.is_false(t):
        v = False
    else:
        k = t.decl().kind()
        ch = t.children()
        if k == z3.Z3_OP_ADD:
            v = sum(_eval_float(c, env, memo) for c in ch)
        elif k == z3.Z3_OP_SUB:
            v = _eval_float(ch[0], env, memo) - sum(_eval_float(c, env, memo) for c in ch[1:])
        elif k == z3.Z3_OP_UMINUS:
            v = -_eval_float(ch[0], env, memo)
        elif k == z3.Z3_OP_MUL:
            v = 1.0
            for c in ch:
                v *= _eval_float(c, env, memo)
        elif k == z3.Z3_OP_DIV:
            v = _eval_float(ch[0], env, memo) / _eval_float(ch[1], env, memo)
        elif k == z3.Z3_OP_POWER:
            v = _eval_float(ch[0], env, memo) ** _eval_float(ch[1], env, memo)
        elif k == z3.Z3_OP_ITE:
            v = _eval_float(ch[1], env, memo) if _eval_float(ch[0], env, memo) else _eval_float(ch[2], env, memo)
        elif k == z3.Z3_OP_LE:
            v = _eval_float(ch[0], env, memo) <= _eval_float(ch[1], env, memo)
        elif k == z3.Z3_OP_LT:
            v = _eval_float(ch[0], env, memo) < _eval_float(ch[1], env, memo)
        elif k == z3.Z3_OP_GE:
            v = _eval_float(ch[0], env, memo) >= _eval_float(ch[1], env, memo)
        elif k == z3.Z3_OP_GT:
            v = _eval_float(ch[0], env, memo) > _eval_float(ch[1], env, memo)
        elif k == z3.Z3_OP_EQ:
            v = _eval_float(ch[0], env, memo) == _eval_float(ch[1], env, memo)
        elif k == z3.Z3_OP_DISTINCT:
            v = _eval_float(ch[0], env, memo) != _eval_float(ch[1], env, memo)
        elif k == z3.Z3_OP_NOT:
            v = not _eval_float(ch[0], env, memo)
        elif k == z3.Z3_OP_AND:
            v = all(_eval_float(c, env, memo) for c in ch)
        elif k == z3.Z3_OP_OR:
            v = any(_eval_float(c, env, memo) for c in ch)
        elif k == z3.Z3_OP_TO_REAL:
            v = _eval_float(ch[0], env, memo)
        elif k == z3.Z3_OP_UNINTERPRETED and ch:
            args = [_eval_float(c, env, memo) for c in ch]
            fn = {"log": math.log, "exp": math.exp, "sinh": math.sinh, "asinh": math.asinh,
                  "pow": lambda a, b: a ** b}.get(t.decl().name())
            if fn is None:
                raise Unsupported(f"evaluation of {t.decl().name()}")
            v = fn(*args)
        else:
            raise Unsupported(f"evaluation of {str(t)[:60]} (kind {k})")
    memo[i] = v
    return v


def _env_for(ctx, assignment):
    env = {}
    for name, v in ctx.symbols.items():
        env[v.get_id()] = float(assignment.get(name, 0.0))
    memo = {}
    for sym, kind, payload in ctx.defs:
        if kind == "sqrt":
            x = math.sqrt(max(_eval_float(payload, env, memo), 0.0))
        elif kind == "floor":
            x = math.floor(_eval_float(payload, env, memo))
        elif kind == "cos_unit":
            x = math.cos(_eval_float(payload[0], env, memo) * float(payload[1]))
        elif kind == "sin_unit":
            x = math.sin(_eval_float(payload[0], env, memo) * float(payload[1]))
        elif kind == "atan2":
            x = math.atan2(_eval_float(payload[0], env, memo), _eval_float(payload[1], env, memo))
        elif kind == "cos_of":
            x = math.cos(_eval_float(payload, env, memo))
        elif kind == "sin_of":
            x = math.sin(_eval_float(payload, env, memo))
        else:  # pragma: no cover
            raise Unsupported(kind)
        env[sym.get_id()] = x
    return env


def eval_S(x, env, memo):
    x = to_S(x)
    re = float(x.re) if isinstance(x.re, Fraction) else _eval_float(x.re, env, memo)
    im = float(x.im) if isinstance(x.im, Fraction) else _eval_float(x.im, env, memo)
    return complex(re, im)


def _validate(check, ctx0, name, claim, n, rnd):
    """sym-mode output terms evaluated at random concrete inputs == num-mode outputs"""
    for k in range(n):
        I = Inputs("num", rnd=random.Random(rnd.random()))
        try:
            rels_num = claim(I)
        except Exception:
            check.obligation(f"{name}:validate", ERROR, detail="claim crashed on the real libraries: " + traceback.format_exc()[-800:],
                             engine="symnum")
            return
        asg = dict(I.values)
        ctx = Ctx(name + ":val")
        ctx.inexact = False
        ctx.guide = asg
        with ctx:
            ctx.decisions, ctx.prefix, ctx.pending = [], [], []
            ctx.decide = lambda term, _c=ctx: _guided(_c, term)
            try:
                rels_sym = claim(Inputs("sym", ctx))
            except (Unsupported, PathAbort) as e:
                check.obligation(f"{name}:validate", INCONCLUSIVE, detail=f"guided symbolic run: {e}", engine="symnum")
                return
            env = _env_for(ctx, asg)
            memo = {}
            for rs, rn in zip(rels_sym, rels_num):
                rs = rs if isinstance(rs, Rel) else Rel(*rs)
                rn = rn if isinstance(rn, Rel) else Rel(*rn)
                for side in ("lhs", "rhs"):
                    A, Bn = _flat(getattr(rs, side)), _flat(getattr(rn, side))
                    if len(A) != len(Bn):
                        check.obligation(f"{name}:validate", ERROR, detail=f"{rs.label}.{side}: symbolic shape {len(A)} != real shape {len(Bn)}",
                                         engine="symnum")
                        return
                    idxs = range(len(A)) if len(A) <= 24 else rnd.sample(range(len(A)), 24)
                    for i in idxs:
                        va, vb = eval_S(A[i], env, memo), complex(Bn[i])
                        if abs(va - vb) > 1e-5 * max(1.0, abs(vb)):
                            check.obligation(f"{name}:validate", ERROR, engine="symnum",
                                             detail=f"library model disagrees with the real library: {rs.label}.{side}[{i}] "
                                                    f"symbolic={va:.8g} real={vb:.8g}")
                            return
        check.validated += 1


def _guided(ctx, term):
    env = _env_for(ctx, ctx.guide)
    val = bool(_eval_float(term, env, {}))
    ctx.decisions.append((term, val))
    return val


# ----------------------------------------------------------------------------------------- parallel driver
_WORK = []


def _worker(i):
    pid, tier, name, claim, opts = _WORK[i]
    from ..common import Check
    c = Check(pid, tier, "")
    t = time.time()
    decide(c, name, claim, **opts)
    return dict(name=name, obligations=c.obligations, witnesses=c.witnesses, violations=c.violations, errors=c.errors,
                validated=c.validated, samples=c.samples, wall=time.time() - t, cross=c.cross)


def decide_many(check, cases, jobs=None, hard_timeout_s=None, **common_opts):
    """cases: list of (name, claim, opts); each case is decided in its own forked process, killed after
    hard_timeout_s of wall time (z3 does not always honour its own time-out) -> inconclusive"""
    import multiprocessing as mp
    import os
    jobs = jobs or int(os.environ.get("VERIF_JOBS", str(os.cpu_count() or 4)))
    work = [(check.pid, check.tier, name, claim, dict(common_opts, **opts)) for name, claim, opts in cases]
    global _WORK
    _WORK = work                     # inherited by the forked workers (claims are closures, not picklable)
    hard = hard_timeout_s or (common_opts.get("timeout_s", 60) * 6 + 120)
    ctxm = mp.get_context("fork")

    def child(i, conn):
        try:
            conn.send(_worker(i))
        except BaseException as e:  # noqa: BLE001
            conn.send(dict(name=work[i][2], obligations=[dict(name=work[i][2], status=ERROR, detail=f"worker crashed: {e!r}",
                                                               solver_s=0.0, paths=0, queries=0, trivial=False)],
                           witnesses=[], violations=[], errors=[], validated=0, samples=[], wall=0))
        finally:
            conn.close()

    def merge(r):
        for o in r["obligations"]:
            check.obligations.append(o)
            check.paths += o["paths"]
            check.queries += o["queries"]
            check.solver_s += o["solver_s"]
        check.witnesses += r["witnesses"]
        check.violations += r["violations"]
        check.errors += r["errors"]
        check.validated += r["validated"]
        for k, v in r.get("cross", {}).items():
            check.cross[k] = check.cross.get(k, 0) + v
        for smp in r["samples"]:
            if len(check.samples) < 12:
                check.samples.append(smp)

    pending = list(range(len(work)))
    running = {}
    while pending or running:
        while pending and len(running) < jobs:
            i = pending.pop(0)
            a, b = ctxm.Pipe(duplex=False)
            p = ctxm.Process(target=child, args=(i, b))
            p.start()
            b.close()
            running[i] = (p, a, time.time())
        done = []
        for i, (p, conn, t0) in running.items():
            if conn.poll(0.05):
                try:
                    merge(conn.recv())
                except EOFError:
                    check.obligation(work[i][2], ERROR, detail="worker died without a result", engine="symnum")
                p.join(5)
                done.append(i)
            elif not p.is_alive():
                check.obligation(work[i][2], ERROR, detail=f"worker exited with code {p.exitcode} without a result", engine="symnum")
                done.append(i)
            elif time.time() - t0 > hard:
                p.terminate()
                p.join(5)
                if p.is_alive():
                    p.kill()
                check.obligation(work[i][2], INCONCLUSIVE, detail=f"hard wall-clock limit of {hard:.0f}s reached (solver did not return)",
                                 engine="symnum")
                done.append(i)
        for i in done:
            running.pop(i)
    check.engines.add("symnum + z3 " + z3.get_version_string())
