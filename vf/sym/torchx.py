"""Engine S, torch side: `SymTensor` is *not* a torch.Tensor; it implements `__torch_function__`,
so torch.f(x), x.f(), real_tensor * x and torch.stack([...]) with a symbolic participant are
routed to a handler table (keyed by function name) that computes on object arrays of symbolic
scalars. Creation functions are covered by `TorchProxy`, which replaces a module's global `torch`.
An operation without a handler raises Unsupported (-> inconclusive, never a silent pass)."""
from __future__ import annotations

import math
from fractions import Fraction

import numpy as np
import torch

from . import core
from .core import B, S, Unsupported, to_S, where as _where
from .npx import (SymArray, _elem, _reduce, _sabs, _sabs2, _sconj, _simag, _smax, _smin, _sreal, _wrap_obj, dft, is_sym,
                  lift)


def A(x):
    """anything -> numpy (object array for symbolic participants)"""
    if isinstance(x, SymTensor):
        return x.a
    if isinstance(x, torch.Tensor):
        return x.detach().cpu().resolve_conj().resolve_neg().numpy()
    if isinstance(x, (list, tuple)):
        if any(isinstance(y, (SymTensor, S)) or (isinstance(y, (list, tuple)) and _has_sym(y)) for y in x):
            return np.array([A(y) if not isinstance(y, S) else y for y in x] + [None], dtype=object)[:-1] \
                if all(np.ndim(A(y)) == 0 for y in x if not isinstance(y, S)) else np.stack([lift(A(y)) for y in x])
        return np.asarray(x)
    return x


def _has_sym(x):
    if isinstance(x, (SymTensor, S)):
        return True
    if isinstance(x, (list, tuple)):
        return any(_has_sym(y) for y in x)
    return False


def T(x):
    """numpy result -> SymTensor (symbolic) or torch tensor (concrete)"""
    if isinstance(x, S):
        return SymTensor(np.array(x, dtype=object).reshape(()))
    if isinstance(x, B):
        if isinstance(x.term, bool):
            return torch.tensor(x.term)
        t = SymTensor.__new__(SymTensor)
        t.cplx = None
        t.a = np.array(x, dtype=object).reshape(())
        return t
    if isinstance(x, np.ndarray):
        if x.dtype == object:
            return SymTensor(x)
        return torch.from_numpy(np.ascontiguousarray(x))
    if isinstance(x, (bool, np.bool_)):
        return torch.tensor(bool(x))
    if isinstance(x, (int, float, complex, np.generic)):
        return torch.tensor(x)
    return x


def _dim(kw, args, pos, default=None):
    if "dim" in kw:
        return kw["dim"]
    if "axis" in kw:
        return kw["axis"]
    if len(args) > pos:
        return args[pos]
    return default


def _obj(a):
    a = np.asarray(a)
    return lift(a).view(np.ndarray) if a.dtype != object else a.view(np.ndarray)


REAL_RESULT = {"real", "imag", "abs", "absolute", "angle", "view_as_real", "norm", "vector_norm", "argmax", "argsort", "isnan",
               "isfinite", "isinf", "lt", "le", "gt", "ge", "eq", "ne", "__lt__", "__le__", "__gt__", "__ge__", "__eq__", "__ne__"}


def _isc(x):
    """does this operand carry a complex dtype (even if its imaginary part happens to be the constant 0)"""
    if isinstance(x, SymTensor):
        return bool(x.cplx) or x.is_complex_valued
    if isinstance(x, torch.Tensor):
        return x.is_complex()
    if isinstance(x, np.ndarray):
        return np.iscomplexobj(x) if x.dtype != object else False
    if isinstance(x, complex):
        return True
    if isinstance(x, (list, tuple)):
        return any(_isc(y) for y in x)
    return False


def _flag(name, args, r):
    if isinstance(r, SymTensor) and name not in REAL_RESULT and r.cplx is None:
        if any(_isc(a) for a in args):
            r.cplx = True
    return r


class SymTensor:
    __array_priority__ = 2000
    cplx = None

    def __init__(self, a, cplx=None):
        if cplx is None and isinstance(a, np.ndarray) and a.dtype != object and np.iscomplexobj(a):
            cplx = True
        self.cplx = cplx
        if isinstance(a, S):
            a = np.array(a, dtype=object).reshape(())
        a = np.asarray(a)
        if a.dtype != object:
            a = lift(a)
        elif a.size and isinstance(a.reshape(-1)[0], B):
            pass                                   # a tensor of symbolic conditions
        elif not isinstance(a, SymArray) and a.ndim:
            a = _elem(to_S)(a)
        elif a.ndim == 0 and not isinstance(a.item(), S):
            a = np.array(to_S(a.item()), dtype=object).reshape(())
        self.a = a.view(np.ndarray)

    def _sym_array(self):
        return self.a

    # ---- torch protocol
    @classmethod
    def __torch_function__(cls, func, types, args=(), kwargs=None):
        kwargs = kwargs or {}
        name = getattr(func, "__name__", None) or str(func)
        h = HANDLERS.get(name)
        if h is None:
            raise Unsupported(f"torch function '{name}' on a symbolic tensor")
        return _flag(name, args, h(*args, **kwargs))

    # ---- metadata
    @property
    def shape(self):
        return torch.Size(self.a.shape)

    def size(self, dim=None):
        return self.shape if dim is None else self.a.shape[dim]

    @property
    def ndim(self):
        return self.a.ndim

    def dim(self):
        return self.a.ndim

    def numel(self):
        return int(self.a.size)

    @property
    def is_complex_valued(self):
        return not all(to_S(x).is_real for x in self.a.reshape(-1))

    @property
    def dtype(self):
        return torch.complex128 if (self.cplx or self.is_complex_valued) else torch.float64

    def is_complex(self):
        return bool(self.cplx) or self.is_complex_valued

    def is_floating_point(self):
        return not self.is_complex()

    @property
    def device(self):
        return torch.device("cpu")

    requires_grad = False
    grad = None
    is_cuda = False

    def __len__(self):
        return self.a.shape[0]

    def __iter__(self):
        for i in range(self.a.shape[0]):
            yield T(self.a[i]) if isinstance(self.a[i], np.ndarray) else T(self.a[i])

    # ---- no-op conversions
    def to(self, *a, **k):
        return self

    def type(self, *a, **k):
        return self

    def clone(self, *a, **k):
        return SymTensor(self.a.copy(), cplx=self.cplx)

    def detach(self):
        return self

    def cpu(self):
        return self

    def contiguous(self, *a, **k):
        return self

    def float(self):
        return self

    double = float
    cfloat = float
    cdouble = float

    def requires_grad_(self, *a, **k):
        return self

    def numpy(self):
        return self.a.view(SymArray)

    def item(self):
        if self.a.size != 1:
            raise ValueError("only one element tensors can be converted to Python scalars")
        x = self.a.reshape(-1)[0]
        return x.const() if x.is_const else x

    def tolist(self):
        return self.a.tolist()

    def __float__(self):
        return float(self.a.reshape(-1)[0]) if self.a.size == 1 else float("nan")

    def __int__(self):
        return int(self.a.reshape(-1)[0])

    def __bool__(self):
        if self.a.size != 1:
            raise RuntimeError("Boolean value of Tensor with more than one value is ambiguous")
        x = self.a.reshape(-1)[0]
        return bool(x)

    def __repr__(self):
        return f"SymTensor(shape={tuple(self.a.shape)})"

    # ---- indexing
    @staticmethod
    def _ix(idx):
        def one(i):
            if isinstance(i, torch.Tensor):
                return i.detach().cpu().numpy()
            if isinstance(i, SymTensor):
                raise Unsupported("indexing with a symbolic tensor")
            return i
        return tuple(one(i) for i in idx) if isinstance(idx, tuple) else one(idx)

    def __getitem__(self, idx):
        r = self.a[self._ix(idx)]
        return _flag("getitem", (self,), T(r))

    def __setitem__(self, idx, val):
        v = A(val)
        if isinstance(idx, SymTensor):
            # x[cond] = v with symbolic conditions: element-wise choice (decided conditions are resolved, the others fork)
            cond = idx.a
            if cond.shape != self.a.shape:
                raise Unsupported("masked assignment with a mask of a different shape")
            vv = to_S(v) if not isinstance(v, np.ndarray) else None
            if vv is None:
                raise Unsupported("masked assignment of an array value")
            for pos in np.ndindex(*cond.shape):
                c = cond[pos]
                take = core.resolve_B(c) if isinstance(c, B) else bool(c)
                if take is None:
                    take = bool(c)                  # forks the exploration
                if take:
                    self.a[pos] = vv
            return
        self.a[self._ix(idx)] = _obj(v) if isinstance(v, np.ndarray) else to_S(v)

    # ---- arithmetic
    def _bin(self, o, f):
        r = T(f(self.a, A(o)))
        return _flag("bin", (self, o), r)

    def __add__(self, o):
        return self._bin(o, lambda a, b: a + b)

    __radd__ = __add__

    def __sub__(self, o):
        return self._bin(o, lambda a, b: a - b)

    def __rsub__(self, o):
        return self._bin(o, lambda a, b: b - a)

    def __mul__(self, o):
        return self._bin(o, lambda a, b: a * b)

    __rmul__ = __mul__

    def __truediv__(self, o):
        return self._bin(o, lambda a, b: a / b)

    def __rtruediv__(self, o):
        return self._bin(o, lambda a, b: b / a)

    def __neg__(self):
        return T(-self.a)

    def __pos__(self):
        return self

    def __pow__(self, p):
        p = A(p)
        if isinstance(p, np.ndarray) and p.ndim == 0:
            p = p.item()
        return T(_elem(lambda x: to_S(x) ** p)(self.a)) if not isinstance(p, np.ndarray) else \
            T(_elem(lambda x, q: to_S(x) ** q, 2)(self.a, p))

    def __rpow__(self, b):
        return T(_elem(lambda x: to_S(b) ** to_S(x))(self.a))

    def __mod__(self, o):
        return T(_elem(lambda x: to_S(x) % o)(self.a))

    def __floordiv__(self, o):
        return T(_elem(lambda x: to_S(x) // o)(self.a))

    def __matmul__(self, o):
        return T(_matmul(self.a, _obj(A(o))))

    def __rmatmul__(self, o):
        return T(_matmul(_obj(A(o)), self.a))

    def __abs__(self):
        return T(_sabs(self.a))

    def _cmp(self, o, op):
        o = A(o)
        return T(_elem(lambda a, b: to_S(a)._cmp(to_S(b), op), 2)(self.a, o))

    def __lt__(self, o):
        return self._cmp(o, "lt")

    def __le__(self, o):
        return self._cmp(o, "le")

    def __gt__(self, o):
        return self._cmp(o, "gt")

    def __ge__(self, o):
        return self._cmp(o, "ge")

    def __eq__(self, o):
        return self._cmp(o, "eq")

    def __ne__(self, o):
        return self._cmp(o, "ne")

    __hash__ = None

    # ---- methods mirroring torch.Tensor
    @property
    def real(self):
        return T(_sreal(self.a))

    @property
    def imag(self):
        return T(_simag(self.a))

    @property
    def T(self):
        return T(self.a.T)

    @property
    def mT(self):
        return T(np.swapaxes(self.a, -1, -2))

    def __getattr__(self, name):
        h = HANDLERS.get(name)
        if h is None:
            raise Unsupported(f"tensor method '{name}' on a symbolic tensor")
        return lambda *a, **k: _flag(name, (self,) + a, h(self, *a, **k))


def _matmul(a, b):
    a, b = _obj(a), _obj(b)
    if a.ndim == 1 and b.ndim == 1:
        return np.array(sum(x * y for x, y in zip(a, b)), dtype=object).reshape(())
    if a.ndim == 1:
        return _matmul(a[None, :], b)[..., 0, :]
    if b.ndim == 1:
        return _matmul(a, b[:, None])[..., 0]
    out = (a[..., :, :, None] * b[..., None, :, :]).sum(axis=-2)
    return out


# ----------------------------------------------------------------------------------------- handlers
HANDLERS = {}


def handler(*names):
    def deco(f):
        for n in names:
            HANDLERS[n] = f
        return f
    return deco


def _u(f):
    """elementwise unary on numpy object arrays"""
    return lambda x, *a, **k: T(_elem(f)(_obj(A(x))))


for _n, _f in {
    "cos": lambda s: to_S(s).cos(), "sin": lambda s: to_S(s).sin(), "exp": lambda s: to_S(s).exp(),
    "log": lambda s: to_S(s).log(), "sqrt": lambda s: to_S(s).sqrt(), "abs": lambda s: abs(to_S(s)), "absolute": lambda s: abs(to_S(s)),
    "square": lambda s: to_S(s) * to_S(s), "neg": lambda s: -to_S(s), "negative": lambda s: -to_S(s), "__neg__": lambda s: -to_S(s),
    "conj": lambda s: to_S(s).conjugate(), "conj_physical": lambda s: to_S(s).conjugate(), "resolve_conj": lambda s: to_S(s),
    "resolve_neg": lambda s: to_S(s), "floor": lambda s: to_S(s).floor(), "ceil": lambda s: to_S(s).ceil(),
    "reciprocal": lambda s: 1 / to_S(s), "rsqrt": lambda s: 1 / to_S(s).sqrt(), "sinh": lambda s: to_S(s).sinh(),
    "asinh": lambda s: to_S(s).arcsinh(), "round": lambda s: to_S(s).rint(),
    "sign": lambda s: _where(to_S(s) > 0, 1, _where(to_S(s) < 0, -1, 0)),
    "relu": lambda s: _where(to_S(s) > 0, s, 0),
}.items():
    HANDLERS[_n] = _u(_f)


def _b2(f):
    return lambda x, y, *a, **k: T(f(A(x) if not isinstance(A(x), (int, float, complex)) else A(x), A(y)))


def _arith(x, y, op, alpha=1):
    a, b = A(x), A(y)
    if alpha != 1:
        b = b * alpha
    a = _obj(a) if isinstance(a, np.ndarray) else a
    b = _obj(b) if isinstance(b, np.ndarray) else b
    if not isinstance(a, np.ndarray) and not isinstance(b, np.ndarray):
        a = np.array(to_S(a), dtype=object).reshape(())
    return T(op(a, b))


HANDLERS.update({
    "remainder": lambda x, y, **k: x.__mod__(y), "__mod__": lambda x, y: x.__mod__(y), "fmod": lambda x, y, **k: x.__mod__(y),
    "floor_divide": lambda x, y, **k: x.__floordiv__(y), "__floordiv__": lambda x, y: x.__floordiv__(y),
    "add": lambda x, y, alpha=1, **k: _arith(x, y, lambda a, b: a + b, alpha), "__add__": lambda x, y: _arith(x, y, lambda a, b: a + b),
    "__radd__": lambda x, y: _arith(x, y, lambda a, b: b + a),
    "sub": lambda x, y, alpha=1, **k: _arith(x, y, lambda a, b: a - b, alpha), "__sub__": lambda x, y: _arith(x, y, lambda a, b: a - b),
    "subtract": lambda x, y, **k: _arith(x, y, lambda a, b: a - b),
    "__rsub__": lambda x, y: _arith(x, y, lambda a, b: b - a), "rsub": lambda x, y, **k: _arith(x, y, lambda a, b: b - a),
    "mul": lambda x, y, **k: _arith(x, y, lambda a, b: a * b), "__mul__": lambda x, y: _arith(x, y, lambda a, b: a * b),
    "multiply": lambda x, y, **k: _arith(x, y, lambda a, b: a * b),
    "__rmul__": lambda x, y: _arith(x, y, lambda a, b: b * a),
    "div": lambda x, y, **k: _arith(x, y, lambda a, b: a / b), "true_divide": lambda x, y, **k: _arith(x, y, lambda a, b: a / b),
    "divide": lambda x, y, **k: _arith(x, y, lambda a, b: a / b),
    "__truediv__": lambda x, y: _arith(x, y, lambda a, b: a / b), "__rtruediv__": lambda x, y: _arith(x, y, lambda a, b: b / a),
    "__rdiv__": lambda x, y: _arith(x, y, lambda a, b: b / a),
    "maximum": lambda x, y, **k: T(_smax(_obj(A(x)), A(y))), "minimum": lambda x, y, **k: T(_smin(_obj(A(x)), A(y))),
    "matmul": lambda x, y, **k: T(_matmul(A(x), A(y))), "__matmul__": lambda x, y: T(_matmul(A(x), A(y))),
    "__rmatmul__": lambda x, y: T(_matmul(A(y), A(x))), "mm": lambda x, y, **k: T(_matmul(A(x), A(y))),
    "bmm": lambda x, y, **k: T(_matmul(A(x), A(y))),
})


@handler("pow", "__pow__")
def _pow(x, p, **k):
    if isinstance(x, SymTensor):
        return x.__pow__(p)
    return SymTensor(lift(A(x))).__pow__(p)


@handler("__rpow__")
def _rpow(x, b):
    return x.__rpow__(b)


for _n, _op in (("lt", "lt"), ("le", "le"), ("gt", "gt"), ("ge", "ge"), ("eq", "eq"), ("ne", "ne"),
                ("__lt__", "lt"), ("__le__", "le"), ("__gt__", "gt"), ("__ge__", "ge"), ("__eq__", "eq"), ("__ne__", "ne")):
    HANDLERS[_n] = (lambda op: lambda x, y, **k: T(_elem(lambda a, b: to_S(a)._cmp(to_S(b), op), 2)(_obj(A(x)) if isinstance(A(x), np.ndarray) else A(x), A(y))))(_op)


@handler("sum")
def _sum(x, *args, **kw):
    d = _dim(kw, args, 0)
    a = _obj(A(x))
    if isinstance(d, list):
        d = tuple(d)
    r = a.sum(axis=d, keepdims=kw.get("keepdim", False)) if d is not None else a.sum()
    return T(r if isinstance(r, np.ndarray) else to_S(r))


@handler("mean")
def _mean(x, *args, **kw):
    d = _dim(kw, args, 0)
    a = _obj(A(x))
    if isinstance(d, list):
        d = tuple(d)
    n = a.size if d is None else int(np.prod([a.shape[i] for i in (d if isinstance(d, tuple) else (d,))]))
    r = a.sum(axis=d, keepdims=kw.get("keepdim", False)) if d is not None else a.sum()
    return T((r if isinstance(r, np.ndarray) else to_S(r)) / n)


@handler("cumsum")
def _cumsum(x, dim=None, **kw):
    return T(np.cumsum(_obj(A(x)), axis=dim))


@handler("prod")
def _prod(x, *args, **kw):
    d = _dim(kw, args, 0)
    return T(np.prod(_obj(A(x)), axis=d))


@handler("amax", "max")
def _max(x, *args, **kw):
    d = _dim(kw, args, 0)
    if len(args) and isinstance(args[0], (torch.Tensor, SymTensor)):
        return T(_smax(_obj(A(x)), A(args[0])))
    if d is not None:
        raise Unsupported("max over a dim of a symbolic tensor (needs argmax)")
    r = _reduce(_obj(A(x)), _smax, None)
    return T(r)


@handler("amin", "min")
def _min(x, *args, **kw):
    d = _dim(kw, args, 0)
    if len(args) and isinstance(args[0], (torch.Tensor, SymTensor)):
        return T(_smin(_obj(A(x)), A(args[0])))
    if d is not None:
        raise Unsupported("min over a dim of a symbolic tensor")
    return T(_reduce(_obj(A(x)), _smin, None))


@handler("clamp", "clip")
def _clamp(x, min=None, max=None, **k):
    a = _obj(A(x))
    if min is not None:
        a = _smax(a, A(min))
    if max is not None:
        a = _smin(a, A(max))
    return T(a)


@handler("clamp_min")
def _clamp_min(x, m):
    return T(_smax(_obj(A(x)), A(m)))


@handler("clamp_max")
def _clamp_max(x, m):
    return T(_smin(_obj(A(x)), A(m)))


@handler("where")
def _twhere(c, a=None, b=None):
    if a is None:
        raise Unsupported("torch.where(cond) on symbolic data")
    cc = A(c)
    return T(_elem(lambda q, x, y: _where(q if isinstance(q, B) else bool(q), x, y), 3)(cc, A(a), A(b)))


@handler("zeros_like")
def _zeros_like(x, **k):
    return T(lift(np.zeros(A(x).shape)))


@handler("ones_like")
def _ones_like(x, **k):
    return T(lift(np.ones(A(x).shape)))


@handler("empty_like")
def _empty_like(x, **k):
    return T(lift(np.zeros(A(x).shape)))


@handler("full_like")
def _full_like(x, v, **k):
    out = np.empty(A(x).shape, dtype=object)
    fill = to_S(A(v))
    for i in np.ndindex(*out.shape):
        out[i] = fill
    return T(out)


@handler("stack")
def _stack(ts, dim=0, **k):
    return T(np.stack([_obj(A(t)) for t in ts], axis=dim))


@handler("cat", "concatenate", "concat")
def _cat(ts, dim=0, **k):
    return T(np.concatenate([_obj(A(t)) for t in ts], axis=dim))


@handler("reshape", "view")
def _reshape(x, *shape):
    if len(shape) == 1 and isinstance(shape[0], (tuple, list, torch.Size)):
        shape = tuple(shape[0])
    return T(_obj(A(x)).reshape(tuple(int(s) for s in shape)))


@handler("flatten")
def _flatten(x, start_dim=0, end_dim=-1):
    a = _obj(A(x))
    nd = a.ndim
    s, e = start_dim % max(nd, 1), end_dim % max(nd, 1)
    return T(a.reshape(a.shape[:s] + (-1,) + a.shape[e + 1:]))


@handler("ravel")
def _ravel(x):
    return T(_obj(A(x)).reshape(-1))


@handler("unsqueeze")
def _unsqueeze(x, dim):
    return T(np.expand_dims(_obj(A(x)), dim))


@handler("squeeze")
def _squeeze(x, dim=None):
    a = _obj(A(x))
    if dim is None:
        return T(np.squeeze(a))
    return T(np.squeeze(a, dim) if a.shape[dim] == 1 else a)


@handler("permute")
def _permute(x, *dims):
    if len(dims) == 1 and isinstance(dims[0], (tuple, list)):
        dims = tuple(dims[0])
    return T(np.transpose(_obj(A(x)), dims))


@handler("transpose", "swapaxes")
def _transpose(x, d0, d1):
    return T(np.swapaxes(_obj(A(x)), d0, d1))


@handler("t")
def _t(x):
    return T(_obj(A(x)).T)


@handler("diagonal")
def _diagonal(x, offset=0, dim1=0, dim2=1):
    return T(np.diagonal(_obj(A(x)), offset=offset, axis1=dim1, axis2=dim2).copy())


@handler("diag")
def _diag(x, diagonal=0):
    a = _obj(A(x))
    if a.ndim == 1:
        n = a.shape[0] + abs(diagonal)
        out = lift(np.zeros((n, n))).view(np.ndarray)
        for i in range(a.shape[0]):
            out[(i, i + diagonal) if diagonal >= 0 else (i - diagonal, i)] = a[i]
        return T(out)
    return T(np.diagonal(a, offset=diagonal).copy())


@handler("movedim", "moveaxis")
def _movedim(x, s, d):
    return T(np.moveaxis(_obj(A(x)), s, d))


@handler("expand")
def _expand(x, *shape):
    if len(shape) == 1 and isinstance(shape[0], (tuple, list, torch.Size)):
        shape = tuple(shape[0])
    a = _obj(A(x))
    shape = tuple(a.shape[i - (len(shape) - a.ndim)] if s == -1 else s for i, s in enumerate(shape))
    return T(np.broadcast_to(a, shape).copy())


@handler("expand_as")
def _expand_as(x, o):
    return T(np.broadcast_to(_obj(A(x)), A(o).shape).copy())


@handler("repeat")
def _repeat(x, *reps):
    if len(reps) == 1 and isinstance(reps[0], (tuple, list)):
        reps = tuple(reps[0])
    return T(np.tile(_obj(A(x)), reps))


@handler("tile")
def _tile(x, reps):
    return T(np.tile(_obj(A(x)), tuple(reps)))


@handler("roll")
def _roll(x, shifts, dims=None):
    return T(np.roll(_obj(A(x)), shifts, axis=dims))


@handler("flip")
def _flip(x, dims):
    return T(np.flip(_obj(A(x)), axis=tuple(dims) if isinstance(dims, (list, tuple)) else dims))


@handler("real")
def _real(x):
    return T(_sreal(_obj(A(x))))


@handler("imag")
def _imag(x):
    return T(_simag(_obj(A(x))))


@handler("complex")
def _complex(re, im):
    return T(_obj(A(re)) + _obj(A(im)) * S(Fraction(0), Fraction(1)))


@handler("polar")
def _polar(absv, angle):
    ang = _obj(A(angle))
    e = _elem(lambda t: core.ctx().exp(S(Fraction(0), to_S(t).re)))(ang)
    return T(_obj(A(absv)) * e)


@handler("view_as_real")
def _view_as_real(x):
    a = _obj(A(x))
    return T(np.stack([_sreal(a), _simag(a)], axis=-1))


@handler("view_as_complex")
def _view_as_complex(x):
    a = _obj(A(x))
    return T(a[..., 0] + a[..., 1] * S(Fraction(0), Fraction(1)))


@handler("angle")
def _angle(x):
    """arg(z): a fresh angle atom psi with |z| cos psi = Re z, |z| sin psi = Im z"""
    return T(_elem(lambda z: _atan2(to_S(z).imag, to_S(z).real))(_obj(A(x))))


def _atan2(y: S, x: S):
    c = core.ctx()
    if x.is_const and y.is_const:
        return S(core._frac(math.atan2(float(y.re), float(x.re))))
    import z3
    r = (x * x + y * y).sqrt()
    c.n_fresh += 1
    name = f"_atan2_{c.n_fresh}"
    v, cc, ss = z3.Real(name), z3.Real(name + ".cos"), z3.Real(name + ".sin")
    c.symbols[name] = v
    c.angles[v.get_id()] = (v, Fraction(1), cc, ss)
    c.side += [cc * cc + ss * ss == 1, core._z(r.re) * cc == core._z(x.re), core._z(r.re) * ss == core._z(y.re)]
    # definitions are evaluated in order: the angle first, then its cos/sin atoms
    c.defs.append((v, "atan2", (core._z(y.re), core._z(x.re))))
    c.defs.append((cc, "cos_unit", (v, Fraction(1))))
    c.defs.append((ss, "sin_unit", (v, Fraction(1))))
    return S(v)


@handler("atan2", "arctan2")
def _tatan2(y, x):
    return T(_elem(lambda a, b: _atan2(to_S(a), to_S(b)), 2)(_obj(A(y)), _obj(A(x))))


@handler("isnan", "isinf")
def _isnan(x):
    return torch.zeros(A(x).shape, dtype=torch.bool)


@handler("isfinite")
def _isfinite(x):
    return torch.ones(A(x).shape, dtype=torch.bool)


@handler("nan_to_num")
def _nan_to_num(x, *a, **k):
    return x


@handler("is_complex")
def _is_complex(x):
    return x.is_complex()


@handler("is_floating_point")
def _is_fp(x):
    return not x.is_complex()


@handler("is_tensor")
def _is_tensor(x):
    return True


@handler("numel")
def _numel(x):
    return int(A(x).size)


@handler("norm", "vector_norm")
def _norm(x, *args, **kw):
    d = _dim(kw, args, 1 if args and not isinstance(args[0], (tuple, list)) else 0)
    a = _sabs2(_obj(A(x)))
    r = a.sum(axis=tuple(d) if isinstance(d, (list, tuple)) else d, keepdims=kw.get("keepdim", False)) if d is not None else a.sum()
    r = r if isinstance(r, np.ndarray) else np.array(to_S(r), dtype=object).reshape(())
    return T(_elem(lambda s: to_S(s).sqrt())(r))


@handler("einsum")
def _einsum(eq, *ops):
    return T(np.einsum(eq, *[_obj(A(o)) for o in ops]))


@handler("dot", "vdot", "inner")
def _dot(x, y):
    return T(np.array((_obj(A(x)) * _obj(A(y))).sum(), dtype=object).reshape(()))


@handler("outer")
def _outer(x, y):
    return T(np.outer(_obj(A(x)), _obj(A(y))))


@handler("index_select")
def _index_select(x, dim, index):
    return T(np.take(_obj(A(x)), A(index), axis=dim))


@handler("gather")
def _gather(x, dim, index):
    return T(np.take_along_axis(_obj(A(x)), A(index), axis=dim))


@handler("diff")
def _diff(x, n=1, dim=-1, **k):
    return T(np.diff(_obj(A(x)), n=n, axis=dim))


@handler("broadcast_to")
def _broadcast_to(x, shape):
    return T(np.broadcast_to(_obj(A(x)), tuple(shape)).copy())


@handler("meshgrid")
def _meshgrid(*ts, indexing="ij"):
    if len(ts) == 1 and isinstance(ts[0], (list, tuple)):
        ts = ts[0]
    return tuple(T(m) for m in np.meshgrid(*[_obj(A(t)) for t in ts], indexing=indexing))


@handler("grid_sample")
def _grid_sample(inp, grid, mode="bilinear", padding_mode="zeros", align_corners=None):
    """bilinear F.grid_sample for a *concrete* sampling grid and symbolic input (N, C, H, W)"""
    if mode != "bilinear" or padding_mode != "zeros":
        raise Unsupported(f"grid_sample mode={mode} padding={padding_mode}")
    if isinstance(grid, SymTensor):
        raise Unsupported("grid_sample with a symbolic grid")
    a = _obj(A(inp))
    g = grid.detach().cpu().double().numpy()
    N, C, H, W = a.shape
    _, Ho, Wo, _ = g.shape
    out = lift(np.zeros((N, C, Ho, Wo))).view(np.ndarray)

    def unnorm(v, size):
        return (v + 1) / 2 * (size - 1) if align_corners else ((v + 1) * size - 1) / 2

    def snap(v):
        r = round(v)
        return float(r) if abs(v - r) < 1e-4 else v          # float32 grid arithmetic: a near-integer is the integer
    for n in range(N):
        for i in range(Ho):
            for j in range(Wo):
                x, y = snap(unnorm(g[n, i, j, 0], W)), snap(unnorm(g[n, i, j, 1], H))
                x0, y0 = math.floor(x), math.floor(y)
                for yy, wy in ((y0, 1 - (y - y0)), (y0 + 1, y - y0)):
                    for xx, wx in ((x0, 1 - (x - x0)), (x0 + 1, x - x0)):
                        w = wx * wy
                        if w != 0 and 0 <= yy < H and 0 <= xx < W:
                            out[n, :, i, j] = out[n, :, i, j] + a[n, :, yy, xx] * w
    return T(out)


@handler("long", "int")
def _long(x, *a, **k):
    arr = _obj(A(x))
    if all(to_S(v).is_const for v in arr.reshape(-1)):
        return torch.tensor([int(to_S(v).re) for v in arr.reshape(-1)], dtype=torch.long).reshape(arr.shape)
    return x                                      # integer-valued symbolic terms (ite of ints) stay symbolic


@handler("argsort")
def _argsort(x, dim=-1, descending=False, **k):
    """data-dependent order: insertion sort whose comparisons fork the exploration"""
    a = _obj(A(x))
    if a.ndim != 1:
        raise Unsupported("argsort of a symbolic tensor with more than one dimension")
    order = []
    for i in range(len(a)):
        pos = len(order)
        for p, j in enumerate(order):
            before = bool(to_S(a[i]) > to_S(a[j])) if descending else bool(to_S(a[i]) < to_S(a[j]))
            if before:
                pos = p
                break
        order.insert(pos, i)
    return torch.tensor(order, dtype=torch.long)


@handler("argmax")
def _argmax(x, dim=None, **k):
    a = _obj(A(x)).reshape(-1) if dim is None else None
    if a is None:
        raise Unsupported("argmax over a dim of a symbolic tensor")
    best = core.unique_argmax(list(a))
    if best is None:
        best = 0
        for i in range(1, len(a)):
            if bool(to_S(a[i]) > to_S(a[best])):
                best = i
    return torch.tensor(best)


@handler("any")
def _any(x, *a, **k):
    arr = np.asarray(A(x)).reshape(-1)
    return torch.tensor(any(bool(v) for v in arr))


@handler("all")
def _all(x, *a, **k):
    arr = np.asarray(A(x)).reshape(-1)
    return torch.tensor(all(bool(v) for v in arr))


@handler("index_put_", "index_put")
def _index_put(x, indices, values, accumulate=False):
    idx = tuple(A(i) for i in indices)
    if accumulate:
        np.add.at(x.a, idx, _obj(A(values)))
    else:
        x.a[idx] = _obj(A(values))
    return x


@handler("scatter_add", "scatter_add_")
def _scatter_add(x, dim, index, src):
    out = _obj(A(x)).copy()
    idx = A(index)
    s = _obj(A(src))
    for pos in np.ndindex(*idx.shape):
        tgt = list(pos)
        tgt[dim] = int(idx[pos])
        out[tuple(tgt)] = out[tuple(tgt)] + s[pos]
    return T(out)


@handler("index_add", "index_add_")
def _index_add(x, dim, index, src, alpha=1):
    out = _obj(A(x)).copy()
    idx = A(index)
    s = np.moveaxis(_obj(A(src)), dim, 0)
    o = np.moveaxis(out, dim, 0)
    for j, i in enumerate(idx):
        o[int(i)] = o[int(i)] + s[j] * alpha
    r = np.moveaxis(o, 0, dim)
    if isinstance(x, SymTensor):
        x.a = r
        return x
    return T(r)


# ---- in-place variants
def _inplace(name):
    def f(x, *a, **k):
        r = HANDLERS[name](x, *a, **k)
        x.a = _obj(A(r))
        return x
    return f


for _n in ("add", "sub", "mul", "div", "clamp", "clamp_min", "clamp_max", "neg", "abs", "sqrt", "square", "exp", "pow"):
    HANDLERS[_n + "_"] = _inplace(_n)
for _n, _m in (("__iadd__", "add"), ("__isub__", "sub"), ("__imul__", "mul"), ("__itruediv__", "div")):
    HANDLERS[_n] = _inplace(_m)


@handler("copy_")
def _copy_(x, src, *a, **k):
    x.a = np.broadcast_to(_obj(A(src)), x.a.shape).copy()
    return x


@handler("fill_")
def _fill_(x, v):
    x.a = lift(np.zeros(x.a.shape)).view(np.ndarray) + to_S(A(v))
    return x


@handler("zero_")
def _zero_(x):
    return _fill_(x, 0.0)


@handler("__setitem__")
def _setitem(x, idx, val):
    x.__setitem__(idx, val)


@handler("__getitem__")
def _getitem(x, idx):
    if isinstance(x, SymTensor):
        return x.__getitem__(idx)
    raise Unsupported("indexing a real tensor with a symbolic index")


# ---- fft
def _fftn(x, inverse, dims, norm):
    a = _obj(A(x))
    nd = a.ndim
    for ax in dims:
        a = dft(a, ax % nd, inverse, norm).view(np.ndarray)
    return T(a)


HANDLERS.update({
    "fft_fft2": lambda x, s=None, dim=(-2, -1), norm=None: _fftn(x, False, dim, norm),
    "fft_ifft2": lambda x, s=None, dim=(-2, -1), norm=None: _fftn(x, True, dim, norm),
    "fft_fftn": lambda x, s=None, dim=None, norm=None: _fftn(x, False, dim if dim is not None else range(A(x).ndim), norm),
    "fft_ifftn": lambda x, s=None, dim=None, norm=None: _fftn(x, True, dim if dim is not None else range(A(x).ndim), norm),
    "fft_fft": lambda x, n=None, dim=-1, norm=None: _fftn(x, False, (dim,), norm),
    "fft_ifft": lambda x, n=None, dim=-1, norm=None: _fftn(x, True, (dim,), norm),
    "fft_fftshift": lambda x, dim=None: T(np.fft.fftshift(_obj(A(x)), axes=dim)),
    "fft_ifftshift": lambda x, dim=None: T(np.fft.ifftshift(_obj(A(x)), axes=dim)),
})


def _hermitian_full(a, ax, n):
    """half spectrum along `ax` (length m) -> full spectrum of length n as c2r transforms read it: bins above n//2 are the
    conjugates of their mirror bins; the imaginary parts of the DC (and, for even n, Nyquist) bins are ignored"""
    from .core import to_S
    a = np.moveaxis(a, ax, -1)
    m = a.shape[-1]
    if m < n // 2 + 1:
        raise Unsupported("irfft with zero-padded input")
    out = np.empty(a.shape[:-1] + (n,), dtype=object)
    for k in range(n):
        if k <= n // 2:
            col = a[..., k]
            if k == 0 or (n % 2 == 0 and k == n // 2):
                col = _vec(lambda z: to_S(z).real)(col)
        else:
            col = _vec(lambda z: to_S(z).conjugate())(a[..., n - k])
        out[..., k] = col
    return np.moveaxis(out, -1, ax)


def _vec(f):
    def g(arr):
        arr = np.asarray(arr, dtype=object)
        o = np.empty(arr.shape, dtype=object)
        for idx in np.ndindex(*arr.shape):
            o[idx] = f(arr[idx])
        return o if arr.ndim else f(arr.item())
    return g


def _irfftn(x, s, dims, norm):
    from .core import to_S
    a = _obj(A(x)).view(np.ndarray)
    nd = a.ndim
    dims = [d % nd for d in dims]
    last = dims[-1]
    n = int(s[-1]) if s is not None else 2 * (a.shape[last] - 1)
    if s is not None and any(int(si) != a.shape[d] for si, d in zip(s[:-1], dims[:-1])):
        raise Unsupported("irfftn with resized leading dimensions")
    for ax in dims[:-1]:
        a = dft(a, ax, True, norm).view(np.ndarray)
    a = _hermitian_full(a, last, n)
    a = dft(a, last, True, norm).view(np.ndarray)
    return T(_vec(lambda z: to_S(z).real)(a))


HANDLERS.update({
    "fft_irfft2": lambda x, s=None, dim=(-2, -1), norm=None: _irfftn(x, s, dim, norm),
    "fft_irfft": lambda x, n=None, dim=-1, norm=None: _irfftn(x, (n,) if n is not None else None, (dim,), norm),
})


# ----------------------------------------------------------------------------------------- module proxy
class _AnyTensorMeta(type):
    def __instancecheck__(cls, x):
        return isinstance(x, (torch.Tensor, SymTensor))


class AnyTensor(metaclass=_AnyTensorMeta):
    """isinstance(x, torch.Tensor) inside a patched module accepts symbolic tensors too"""


class TorchProxy:
    """stands in for a module's global `torch`: creation functions accept symbolic elements"""

    def __init__(self):
        self.fft = torch.fft
        self.nn = torch.nn
        self.linalg = torch.linalg
        self.Tensor = AnyTensor

    def __getattr__(self, name):
        return getattr(torch, name)

    def tensor(self, data, *a, **k):
        if _has_sym(data) or isinstance(data, S):
            return T(_to_obj_nested(data))
        return torch.tensor(data, *a, **k)

    def as_tensor(self, data, *a, **k):
        if isinstance(data, SymTensor):
            return data
        if _has_sym(data) or isinstance(data, S) or is_sym(data):
            return T(_to_obj_nested(data))
        return torch.as_tensor(data, *a, **k)

    # creation functions: float/complex results may later receive symbolic elements
    def _create(self, fn, *a, **k):
        r = fn(*a, **k)
        if isinstance(r, torch.Tensor) and (r.is_floating_point() or r.is_complex()):
            return SymTensor(lift(r.numpy()))
        return r

    def empty(self, *a, **k):
        k.pop("device", None)
        return self._create(torch.zeros, *a, **k)

    def zeros(self, *a, **k):
        k.pop("device", None)
        return self._create(torch.zeros, *a, **k)

    def ones(self, *a, **k):
        k.pop("device", None)
        return self._create(torch.ones, *a, **k)

    def zeros_like(self, x, *a, **k):
        if isinstance(x, SymTensor):
            return torch.zeros_like(x, *a, **k)
        return self._create(torch.zeros_like, x, *a, **k)

    def ones_like(self, x, *a, **k):
        if isinstance(x, SymTensor):
            return torch.ones_like(x, *a, **k)
        return self._create(torch.ones_like, x, *a, **k)

    def empty_like(self, x, *a, **k):
        if isinstance(x, SymTensor):
            return torch.empty_like(x, *a, **k)
        return self._create(torch.zeros_like, x, *a, **k)

    def from_numpy(self, a):
        if is_sym(a):
            return SymTensor(np.asarray(a))
        return torch.from_numpy(a)

    def is_tensor(self, x):
        return isinstance(x, (torch.Tensor, SymTensor))


def _to_obj_nested(data):
    if isinstance(data, SymTensor):
        return data.a
    if isinstance(data, S):
        return np.array(data, dtype=object).reshape(())
    if isinstance(data, (list, tuple)):
        parts = [_to_obj_nested(d) for d in data]
        return np.stack([_obj(p) for p in parts])
    if isinstance(data, torch.Tensor):
        return lift(data.detach().cpu().numpy())
    if isinstance(data, np.ndarray) and data.dtype == object:
        return data
    return lift(np.asarray(data))


class patched_torch:
    def __init__(self, *modules):
        self.modules = modules
        self.proxy = TorchProxy()

    def __enter__(self):
        self.old = [m.torch for m in self.modules]
        for m in self.modules:
            m.torch = self.proxy
        return self.proxy

    def __exit__(self, *a):
        for m, o in zip(self.modules, self.old):
            m.torch = o
        return False
