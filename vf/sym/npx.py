"""Engine S, NumPy side: object-dtype ndarray subclass holding symbolic scalars + a module facade
`NP` that replaces a module's global `np` so that the functions object arrays cannot serve
(fft, clip/where -> ite, real/imag, creation functions, isrealobj, quantile stub) are modelled."""
from __future__ import annotations

import math
import types
from fractions import Fraction

import numpy as np

from . import core
from .core import B, S, Unsupported, to_S, where as _where


def _wrap_obj(x):
    """object array -> SymArray view; everything else unchanged"""
    if isinstance(x, np.ndarray) and x.dtype == object and not isinstance(x, SymArray):
        return x.view(SymArray)
    return x


def _elem(f, nin=1):
    uf = np.frompyfunc(f, nin, 1)

    def g(*args):
        r = uf(*[np.asarray(a) if not isinstance(a, np.ndarray) else a.view(np.ndarray) for a in args])
        return _wrap_obj(r) if isinstance(r, np.ndarray) else r
    return g


def _b_lt(a, b):
    return to_S(a) < to_S(b)


_smax = _elem(lambda a, b: _where(to_S(a) >= to_S(b), a, b), 2)
_smin = _elem(lambda a, b: _where(to_S(a) <= to_S(b), a, b), 2)
_sabs = _elem(lambda a: abs(to_S(a)))
_sreal = _elem(lambda a: to_S(a).real)
_simag = _elem(lambda a: to_S(a).imag)
_sconj = _elem(lambda a: to_S(a).conjugate())
_sabs2 = _elem(lambda a: to_S(a).abs2())
_CMP = {np.less: "lt", np.less_equal: "le", np.greater: "gt", np.greater_equal: "ge", np.equal: "eq", np.not_equal: "ne"}


def is_sym(x):
    return isinstance(x, SymArray) or isinstance(x, S) or (isinstance(x, np.ndarray) and x.dtype == object)


def lift(x):
    """any array-like -> SymArray of S"""
    a = np.asarray(x)
    if a.dtype == object:
        return _elem(to_S)(a) if a.ndim else to_S(a.item())
    out = np.empty(a.shape, dtype=object)
    flat = out.reshape(-1)
    for i, v in enumerate(a.reshape(-1)):
        flat[i] = to_S(v.item() if hasattr(v, "item") else v)
    return out.view(SymArray)


class SymArray(np.ndarray):
    """ndarray(dtype=object) of core.S"""

    def __array_finalize__(self, obj):
        pass

    def __array_ufunc__(self, ufunc, method, *inputs, out=None, **kwargs):
        ins = [i.view(np.ndarray) if isinstance(i, SymArray) else i for i in inputs]
        if method == "__call__":
            if ufunc in (np.maximum, np.minimum):
                r = (_smax if ufunc is np.maximum else _smin)(*ins)
                return self._store(r, out)
            if ufunc in _CMP:
                op = _CMP[ufunc]
                r = _elem(lambda a, b: to_S(a)._cmp(to_S(b), op), 2)(*ins)
                # a comparison that the assumptions decide for every element is an ordinary boolean array
                # (usable as a mask); otherwise the symbolic conditions are kept
                if isinstance(r, np.ndarray) and r.size <= 64:
                    flat = [core.resolve_B(x) for x in r.reshape(-1)]
                    if all(v is not None for v in flat):
                        r = np.array(flat, dtype=bool).reshape(r.shape)
                return self._store(r, out)
            if ufunc is np.absolute:
                return self._store(_sabs(ins[0]), out)
            if ufunc in (np.conjugate,):
                return self._store(_sconj(ins[0]), out)
            if ufunc in (np.isfinite,):
                return np.ones(np.shape(ins[0]), dtype=bool)
            if ufunc in (np.isnan, np.isinf):
                return np.zeros(np.shape(ins[0]), dtype=bool)
            if ufunc is np.clip:
                lo, hi = ins[1], ins[2]
                return self._store(_smin(_smax(ins[0], lo), hi), out)
            if ufunc in (np.floor_divide, np.remainder):
                f = (lambda a, b: to_S(a) % b) if ufunc is np.remainder else (lambda a, b: to_S(a) // b)
                return self._store(_elem(f, 2)(*ins), out)
            if ufunc is np.power:
                r = _elem(lambda a, p: to_S(a) ** (p if not isinstance(p, S) else p), 2)(*ins)
                return self._store(r, out)
            if ufunc is np.sign:
                r = _elem(lambda a: _where(to_S(a) > 0, 1, _where(to_S(a) < 0, -1, 0)))(ins[0])
                return self._store(r, out)
        if out is not None:
            kwargs["out"] = tuple(o.view(np.ndarray) if isinstance(o, SymArray) else o for o in out)
        ins = [lift(i).view(np.ndarray) if (isinstance(i, np.ndarray) and i.dtype != object and i.dtype.kind in "fciub"
                                            and ufunc.nin == 1) else i for i in ins]
        r = getattr(ufunc, method)(*ins, **kwargs)
        if out is not None:
            return out[0] if len(out) == 1 else out
        if isinstance(r, np.ndarray):
            return _wrap_obj(r)
        return r

    def __getitem__(self, key):
        # boolean mask made of symbolic conditions: each condition is decided on the current path (forks the exploration)
        if isinstance(key, np.ndarray) and key.dtype == object and key.size and all(isinstance(b, (core.B, bool, np.bool_)) for b in key.reshape(-1)):
            key = np.array([bool(b) for b in key.reshape(-1)], dtype=bool).reshape(key.shape)
        return super().__getitem__(key)

    @staticmethod
    def _store(r, out):
        if out is not None:
            o = out[0]
            o[...] = r
            return o
        return r

    # ---- attributes NumPy gets wrong for object arrays
    @property
    def real(self):
        return _sreal(self.view(np.ndarray))

    @property
    def imag(self):
        return _simag(self.view(np.ndarray))

    def conj(self):
        return _sconj(self.view(np.ndarray))

    conjugate = conj

    def astype(self, dtype, *a, **k):
        dt = np.dtype(dtype) if dtype not in (float, complex, int) else np.dtype(dtype)
        if dt.kind in "fc" or dt == object:
            return self.copy()
        if dt.kind in "iu" and getattr(core.ctx(), "symbolic_int_arrays", False):
            return self.copy()          # integer-valued symbolic terms (floor(...)) stay symbolic
        if dt.kind in "iu":
            return np.array([int(x) for x in self.reshape(-1)], dtype=dt).reshape(self.shape)
        if dt.kind == "b":
            return np.array([bool(x) for x in self.reshape(-1)], dtype=bool).reshape(self.shape)
        raise Unsupported(f"astype({dt}) on a symbolic array")

    def mean(self, axis=None, **k):
        n = self.size if axis is None else int(np.prod([self.shape[a] for a in (axis if isinstance(axis, tuple) else (axis,))]))
        return self.sum(axis=axis) / n

    def max(self, axis=None, **k):
        return _reduce(self, _smax, axis)

    def min(self, axis=None, **k):
        return _reduce(self, _smin, axis)

    def __array_function__(self, func, types_, args, kwargs):
        r = super().__array_function__(func, types_, args, kwargs)
        return _wrap_obj(r) if isinstance(r, np.ndarray) else r


def _reduce(a, f2, axis):
    a = np.asarray(a).view(np.ndarray)
    if axis is None:
        flat = a.reshape(-1)
        out = flat[0]
        for x in flat[1:]:
            out = f2(out, x)
        return out if isinstance(out, S) else (out.item() if isinstance(out, np.ndarray) and out.ndim == 0 else out)
    a = np.moveaxis(a, axis, 0)
    out = a[0]
    for x in a[1:]:
        out = f2(out, x)
    return _wrap_obj(np.asarray(out))


# ----------------------------------------------------------------------------------------- DFT
EXACT_LENGTHS = (1, 2, 3, 4, 6, 12)


def twiddles(n, sign):
    """W[k, j] = exp(sign * 2*pi*i*k*j/n) as S constants; exact for n | 4, float64 rationals otherwise"""
    W = np.empty((n, n), dtype=object)
    for k in range(n):
        for j in range(n):
            m = (k * j) % n
            if (4 * m) % n == 0:
                q = (4 * m) // n
                c, s = [(1, 0), (0, 1), (-1, 0), (0, -1)][q]
                W[k, j] = S(Fraction(c), Fraction(sign * s))
            elif (12 * m) % n == 0:
                # multiples of 30 degrees: exact with the algebraic constant r3 = sqrt(3) (r3 * r3 folds to 3)
                q = (12 * m) // n
                r3h = to_S(Fraction(3)).sqrt() * Fraction(1, 2)
                half = S(Fraction(1, 2))
                cos_t = [S(Fraction(1)), r3h, half, S(Fraction(0)), -half, -r3h, S(Fraction(-1)), -r3h, -half, S(Fraction(0)), half, r3h]
                c, s_ = cos_t[q], cos_t[(q - 3) % 12]
                W[k, j] = S(c.re, (s_ * sign).re)
            else:
                th = 2 * math.pi * m / n
                core.ctx().inexact = True
                W[k, j] = S(Fraction(math.cos(th)).limit_denominator(10**12), Fraction(sign * math.sin(th)).limit_denominator(10**12))
    return W


def dft(a, axis, inverse=False, norm=None):
    a = lift(a).view(np.ndarray)
    n = a.shape[axis]
    W = twiddles(n, +1 if inverse else -1)
    x = np.moveaxis(a, axis, 0)
    out = np.empty(x.shape, dtype=object)
    for k in range(n):
        acc = None
        for j in range(n):
            term = x[j] * W[k, j] if not (W[k, j].is_const and W[k, j].re == 1 and W[k, j].im == 0) else x[j]
            acc = term if acc is None else acc + term
        out[k] = acc
    scale = None
    if norm in (None, "backward"):
        scale = Fraction(1, n) if inverse else None
    elif norm == "ortho":
        scale = to_S(Fraction(1, n)).sqrt() if n > 1 else None
    elif norm == "forward":
        scale = None if inverse else Fraction(1, n)
    else:
        raise Unsupported(f"fft norm {norm}")
    if scale is not None:
        out = out * scale
    return np.moveaxis(out, 0, axis).view(SymArray)


def _axes(a, axes, default_last=None):
    nd = np.ndim(a)
    if axes is None:
        axes = tuple(range(nd)) if default_last is None else tuple(range(nd - default_last, nd))
    if isinstance(axes, int):
        axes = (axes,)
    return tuple(ax % nd for ax in axes)


class _FFT:
    def __init__(self, real_fft):
        self._np = real_fft

    def __getattr__(self, name):
        return getattr(self._np, name)

    def fftn(self, a, s=None, axes=None, norm=None):
        if s is not None:
            raise Unsupported("fft with s=")
        if not is_sym(a):
            return self._np.fftn(a, axes=axes, norm=norm)
        for ax in _axes(a, axes):
            a = dft(a, ax, False, norm)
        return a

    def ifftn(self, a, s=None, axes=None, norm=None):
        if s is not None:
            raise Unsupported("fft with s=")
        if not is_sym(a):
            return self._np.ifftn(a, axes=axes, norm=norm)
        for ax in _axes(a, axes):
            a = dft(a, ax, True, norm)
        return a

    def fft2(self, a, s=None, axes=(-2, -1), norm=None):
        return self.fftn(a, s, axes, norm)

    def ifft2(self, a, s=None, axes=(-2, -1), norm=None):
        return self.ifftn(a, s, axes, norm)

    def fft(self, a, n=None, axis=-1, norm=None):
        if n is not None:
            raise Unsupported("fft with n=")
        return self.fftn(a, None, (axis,), norm)

    def ifft(self, a, n=None, axis=-1, norm=None):
        if n is not None:
            raise Unsupported("fft with n=")
        return self.ifftn(a, None, (axis,), norm)

    def fftshift(self, a, axes=None):
        return _wrap_obj(self._np.fftshift(np.asarray(a).view(np.ndarray) if is_sym(a) else a, axes=axes))

    def ifftshift(self, a, axes=None):
        return _wrap_obj(self._np.ifftshift(np.asarray(a).view(np.ndarray) if is_sym(a) else a, axes=axes))


# ----------------------------------------------------------------------------------------- module facade
class NP:
    """stands in for a module's global `np`"""

    def __init__(self, overrides=None):
        self.fft = _FFT(np.fft)
        self._over = overrides or {}
        self.ndarray = np.ndarray
        self.ma = _MA()

    def __getattr__(self, name):
        if name in self._over:
            return self._over[name]
        return getattr(np, name)

    # creation: float/complex arrays that may later receive symbolic elements become SymArrays
    def _create(self, fn, *a, dtype=None, **k):
        r = fn(*a, dtype=dtype, **k) if dtype is not None else fn(*a, **k)
        if r.dtype.kind in "fc":
            return lift(r)
        return r

    def zeros(self, shape, dtype=None, **k):
        return self._create(np.zeros, shape, dtype=dtype, **k)

    def ones(self, shape, dtype=None, **k):
        return self._create(np.ones, shape, dtype=dtype, **k)

    def empty(self, shape, dtype=None, **k):
        return self._create(np.zeros, shape, dtype=dtype, **k)

    def zeros_like(self, a, dtype=None, **k):
        if is_sym(a) and dtype is None:
            return lift(np.zeros(np.shape(a)))
        return self._create(np.zeros_like, a, dtype=dtype, **k)

    def ones_like(self, a, dtype=None, **k):
        if is_sym(a) and dtype is None:
            return lift(np.ones(np.shape(a)))
        return self._create(np.ones_like, a, dtype=dtype, **k)

    def empty_like(self, a, dtype=None, **k):
        return self.zeros_like(a, dtype=dtype, **k)

    def array(self, a, dtype=None, copy=True, **k):
        if isinstance(a, SymArray) and not copy:
            return a
        if is_sym(a) or (isinstance(a, (list, tuple)) and any(is_sym(x) for x in a)):
            r = np.array(a, dtype=object, copy=True)
            return _wrap_obj(_elem(to_S)(r)) if r.ndim else to_S(r.item())
        return np.array(a, dtype=dtype, copy=copy, **k) if dtype is not None else np.array(a, copy=copy, **k)

    def asarray(self, a, dtype=None, **k):
        if is_sym(a) or (isinstance(a, (list, tuple)) and any(is_sym(x) for x in a)):
            if isinstance(a, SymArray):
                return a
            r = np.asarray(a, dtype=object)
            return _wrap_obj(_elem(to_S)(r)) if r.ndim else to_S(r.item())
        return np.asarray(a, dtype=dtype, **k) if dtype is not None else np.asarray(a, **k)

    # ite-valued selections
    def clip(self, a, a_min=None, a_max=None, out=None, **k):
        if not (is_sym(a) or is_sym(a_min) or is_sym(a_max)):
            return np.clip(a, a_min, a_max, out=out, **k)
        r = lift(a) if not isinstance(a, S) else a
        if a_min is not None:
            r = _smax(r, a_min)
        if a_max is not None:
            r = _smin(r, a_max)
        if out is not None:
            out[...] = r
            return out
        return r

    def maximum(self, a, b, out=None, **k):
        if not (is_sym(a) or is_sym(b)):
            return np.maximum(a, b, out=out, **k)
        r = _smax(a, b)
        if out is not None:
            out[...] = r
            return out
        return r

    def minimum(self, a, b, out=None, **k):
        if not (is_sym(a) or is_sym(b)):
            return np.minimum(a, b, out=out, **k)
        r = _smin(a, b)
        if out is not None:
            out[...] = r
            return out
        return r

    def where(self, c, a=None, b=None):
        if a is None:
            return np.where(c)
        if not (is_sym(c) or is_sym(a) or is_sym(b)):
            return np.where(c, a, b)
        return _elem(lambda cc, x, y: _where(cc if isinstance(cc, B) else bool(cc), x, y), 3)(c, a, b)

    def abs(self, a, **k):
        return _sabs(a) if is_sym(a) else np.abs(a, **k)

    absolute = abs

    def real(self, a):
        return _sreal(a) if is_sym(a) else np.real(a)

    def imag(self, a):
        return _simag(a) if is_sym(a) else np.imag(a)

    def conj(self, a):
        return _sconj(a) if is_sym(a) else np.conj(a)

    conjugate = conj

    def isrealobj(self, a):
        if is_sym(a):
            return all(to_S(x).is_real for x in np.asarray(a).reshape(-1))
        return np.isrealobj(a)

    def iscomplexobj(self, a):
        return not self.isrealobj(a)

    def isfinite(self, a):
        return np.ones(np.shape(a), dtype=bool) if is_sym(a) else np.isfinite(a)

    def isnan(self, a):
        return np.zeros(np.shape(a), dtype=bool) if is_sym(a) else np.isnan(a)

    def max(self, a, axis=None, **k):
        return _reduce(a, _smax, axis) if is_sym(a) else np.max(a, axis=axis, **k)

    def min(self, a, axis=None, **k):
        return _reduce(a, _smin, axis) if is_sym(a) else np.min(a, axis=axis, **k)

    amax, amin = max, min

    def sqrt(self, a, **k):
        if is_sym(a):
            return _elem(lambda x: to_S(x).sqrt())(a) if not isinstance(a, S) else a.sqrt()
        return np.sqrt(a, **k)

    def angle(self, a, **k):
        if is_sym(a):
            raise Unsupported("np.angle of a symbolic array")
        return np.angle(a, **k)

    def pad(self, a, pad_width, mode="constant", **k):
        if is_sym(a):
            if mode != "constant" or k.get("constant_values", 0) != 0:
                raise Unsupported(f"np.pad mode {mode}")
            r = np.pad(np.asarray(a).view(np.ndarray), pad_width, mode="constant", constant_values=0)
            return _elem(to_S)(r)
        return np.pad(a, pad_width, mode=mode, **k)

    def sum(self, a, axis=None, **k):
        if is_sym(a):
            k.pop("dtype", None)
            return _wrap_obj(np.sum(np.asarray(a).view(np.ndarray), axis=axis, **k))
        return np.sum(a, axis=axis, **k)

    def mean(self, a, axis=None, **k):
        if is_sym(a):
            return lift(a).mean(axis=axis)
        return np.mean(a, axis=axis, **k)

    def argmax(self, a, axis=None, **k):
        if not is_sym(a):
            return np.argmax(a, axis=axis, **k)
        if axis is not None:
            raise Unsupported("argmax over an axis of a symbolic array")
        flat = list(np.asarray(a).reshape(-1))
        i = core.unique_argmax(flat)
        if i is None:                      # not unique over the inputs: fork comparison by comparison
            i = 0
            for j in range(1, len(flat)):
                if bool(to_S(flat[j]) > to_S(flat[i])):
                    i = j
        return np.intp(i)

    def isclose(self, a, b, rtol=1e-5, atol=1e-8, **k):
        if not (is_sym(a) or is_sym(b)):
            return np.isclose(a, b, rtol=rtol, atol=atol, **k)
        f = lambda x, y: abs(to_S(x) - to_S(y)) <= (abs(to_S(y)) * rtol + atol)  # noqa: E731
        r = _elem(f, 2)(a, b)
        return r

    def fmax(self, a, b, out=None, **k):
        return self.maximum(a, b, out=out, **k)      # NaN handling differs only on NaN, which symbolic reals never are

    def fmin(self, a, b, out=None, **k):
        return self.minimum(a, b, out=out, **k)

    def allclose(self, a, b, **k):
        if is_sym(a) or is_sym(b):
            raise Unsupported("np.allclose on symbolic arrays")
        return np.allclose(a, b, **k)


class _MA:
    def masked_invalid(self, a, copy=True):
        if is_sym(a):
            return a              # symbolic reals are finite by construction: nothing is masked
        return np.ma.masked_invalid(a, copy=copy)

    def __getattr__(self, name):
        return getattr(np.ma, name)


class patched_np:
    """with patched_np(module[, overrides]): the module's global `np` is the facade"""

    def __init__(self, *modules, overrides=None):
        self.modules = modules
        self.np = NP(overrides)

    def __enter__(self):
        self.old = [m.np for m in self.modules]
        for m in self.modules:
            m.np = self.np
        return self.np

    def __exit__(self, *a):
        for m, o in zip(self.modules, self.old):
            m.np = o
        return False
