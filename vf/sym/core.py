"""Engine S core: symbolic complex scalars over z3 reals, symbolic booleans with path forking,
context (side constraints, angle atoms, uninterpreted transcendental functions), solver calls.

A scalar `S` is a pair (re, im); each part is a `fractions.Fraction` (constant) or a z3 real
term. Python floats met during execution become the exact rational they denote.
"""
from __future__ import annotations

import math
import time
from fractions import Fraction

import z3

_CTX = []


def ctx() -> "Ctx":
    if not _CTX:
        raise RuntimeError("no active symbolic context")
    return _CTX[-1]


class Unsupported(NotImplementedError):
    """an operation the symbolic library model does not implement -> inconclusive, never a pass"""


class PathAbort(BaseException):
    """raised by the explorer to cut a path (infeasible / budget)"""


def _is_const(x):
    return isinstance(x, Fraction)


def _frac(x):
    if isinstance(x, Fraction):
        return x
    if isinstance(x, bool):
        return Fraction(int(x))
    if isinstance(x, int):
        return Fraction(x)
    if isinstance(x, float):
        if math.isnan(x) or math.isinf(x):
            raise Unsupported("nan/inf constant in symbolic arithmetic")
        q = Fraction(x)
        # "floats as reals": a float literal within one ulp of a small rational (1/3, 0.1, 1/6 ...)
        # denotes that rational; anything else (pi, sqrt(2), data) keeps its exact binary value
        if q.denominator > 2**20:
            r = q.limit_denominator(10**6)
            if abs(r - q) <= abs(q) * Fraction(3, 10**16):
                return r
        return q
    try:
        import numpy as np
        if isinstance(x, np.integer):
            return Fraction(int(x))
        if isinstance(x, np.floating):
            return _frac(float(x))
        if isinstance(x, np.bool_):
            return Fraction(int(x))
    except ImportError:  # pragma: no cover
        pass
    raise TypeError(f"cannot convert {type(x).__name__} to a rational")


def _z(x):
    """part -> z3 term"""
    if isinstance(x, Fraction):
        return z3.RealVal(f"{x.numerator}/{x.denominator}") if x.denominator != 1 else z3.RealVal(x.numerator)
    return x


def _add(a, b):
    if _is_const(a) and _is_const(b):
        return a + b
    if _is_const(a) and a == 0:
        return b
    if _is_const(b) and b == 0:
        return a
    return _z(a) + _z(b)


def _sub(a, b):
    if _is_const(a) and _is_const(b):
        return a - b
    if _is_const(b) and b == 0:
        return a
    if _is_const(a) and a == 0:
        return -_z(b)
    return _z(a) - _z(b)


def _mul(a, b):
    if _is_const(a) and _is_const(b):
        return a * b
    if _is_const(a):
        if a == 0:
            return Fraction(0)
        if a == 1:
            return b
        if a == -1:
            return -_z(b)
    if _is_const(b):
        if b == 0:
            return Fraction(0)
        if b == 1:
            return a
        if b == -1:
            return -_z(a)
    return _z(a) * _z(b)


def _neg(a):
    return -a if _is_const(a) else -_z(a)


def _div(a, b):
    if _is_const(b):
        if b == 0:
            raise ZeroDivisionError("symbolic division by the constant 0")
        return _mul(a, 1 / b)
    if _is_const(a) and a == 0:
        return Fraction(0)
    if not _is_const(a):
        # a numerator that is identically zero (e.g. v[2] - v[0] of a symmetric correlation) must not turn the
        # quotient into a non-linear term: let z3's rewriter cancel it
        sa = z3.simplify(a, som=True)
        if z3.is_rational_value(sa) or z3.is_int_value(sa):
            a = _q(sa)
            if a == 0:
                return Fraction(0)
    return _z(a) / _z(b)


def to_S(x) -> "S":
    if isinstance(x, S):
        return x
    if isinstance(x, float) and math.isinf(x) and x > 0:
        return INF
    if isinstance(x, B):
        return S(z3.If(x.term, z3.RealVal(1), z3.RealVal(0)) if not isinstance(x.term, bool) else Fraction(int(x.term)))
    if isinstance(x, complex):
        return S(_frac(x.real), _frac(x.imag))
    try:
        import numpy as np
        if isinstance(x, np.complexfloating):
            return S(_frac(float(x.real)), _frac(float(x.imag)))
        if isinstance(x, np.ndarray) and x.ndim == 0:
            return to_S(x.item())
    except ImportError:  # pragma: no cover
        pass
    try:
        import torch
        if isinstance(x, torch.Tensor) and x.ndim == 0:
            return to_S(x.item())
    except ImportError:  # pragma: no cover
        pass
    return S(_frac(x))


class S:
    """symbolic complex scalar"""
    __slots__ = ("re", "im")

    def __init__(self, re, im=Fraction(0)):
        self.re = re
        self.im = im

    # ---- classification
    @property
    def is_const(self):
        return _is_const(self.re) and _is_const(self.im)

    @property
    def is_real(self):
        return _is_const(self.im) and self.im == 0

    def const(self):
        if not self.is_const:
            raise Unsupported("a concrete value was required for a symbolic term")
        return complex(float(self.re), float(self.im)) if self.im != 0 else float(self.re)

    # ---- arithmetic
    def __add__(self, o):
        o = _coerce(o)
        if o is NotImplemented:
            return o
        return S(_add(self.re, o.re), _add(self.im, o.im))

    __radd__ = __add__

    def __sub__(self, o):
        o = _coerce(o)
        if o is NotImplemented:
            return o
        return S(_sub(self.re, o.re), _sub(self.im, o.im))

    def __rsub__(self, o):
        o = _coerce(o)
        if o is NotImplemented:
            return o
        return o.__sub__(self)

    def __mul__(self, o):
        o = _coerce(o)
        if o is NotImplemented:
            return o
        if self.is_real and o.is_real:
            if not _is_const(self.re) and not _is_const(o.re) and _CTX and self.re.get_id() == o.re.get_id():
                rad = _CTX[-1].sqrt_arg.get(self.re.get_id())
                if rad is not None:
                    return S(rad)                       # sqrt(x) * sqrt(x) = x
            return S(_mul(self.re, o.re))
        if o.is_real:
            return S(_mul(self.re, o.re), _mul(self.im, o.re))
        if self.is_real:
            return S(_mul(self.re, o.re), _mul(self.re, o.im))
        return S(_sub(_mul(self.re, o.re), _mul(self.im, o.im)), _add(_mul(self.re, o.im), _mul(self.im, o.re)))

    __rmul__ = __mul__

    def __neg__(self):
        return S(_neg(self.re), _neg(self.im))

    def __pos__(self):
        return self

    def conjugate(self):
        return S(self.re, _neg(self.im))

    conj = conjugate

    def __truediv__(self, o):
        o = _coerce(o)
        if o is NotImplemented:
            return o
        if o is INF:
            return S(Fraction(0))                 # the idiom `amps[amps == 0] = inf; y = x / amps`
        if o.is_real:
            return S(_div(self.re, o.re), _div(self.im, o.re))
        d = _add(_mul(o.re, o.re), _mul(o.im, o.im))
        n = self * o.conjugate()
        return S(_div(n.re, d), _div(n.im, d))

    def __rtruediv__(self, o):
        o = _coerce(o)
        if o is NotImplemented:
            return o
        return o.__truediv__(self)

    def __pow__(self, p):
        if self is INF:
            raise Unsupported("arithmetic on +inf other than x / inf")
        if isinstance(p, S):
            if not p.is_const or p.im != 0:
                return ctx().power(self, p)
            p = p.re
        p = _frac(p) if not isinstance(p, Fraction) else p
        if p.denominator == 1:
            n = int(p)
            if n == 0:
                return S(Fraction(1))
            if n < 0:
                return S(Fraction(1)) / (self ** (-n))
            out = None
            base = self
            while n:
                if n & 1:
                    out = base if out is None else out * base
                base = base * base
                n >>= 1
            return out
        if p == Fraction(1, 2):
            return self.sqrt()
        return ctx().power(self, S(p))

    def __rpow__(self, base):
        return ctx().power(to_S(base), self)

    def __abs__(self):
        if self.is_const:
            return S(_frac(abs(complex(float(self.re), float(self.im))))) if self.im != 0 else S(abs(self.re))
        if self.is_real:
            t = _z(self.re)
            return S(z3.If(t >= 0, t, -t))
        return ctx().sqrt_of(S(_add(_mul(self.re, self.re), _mul(self.im, self.im))), hint="abs")

    def abs2(self):
        return S(_add(_mul(self.re, self.re), _mul(self.im, self.im)))

    # ---- parts
    @property
    def real(self):
        return S(self.re)

    @property
    def imag(self):
        return S(self.im)

    # ---- numpy ufunc hooks for object arrays (np.exp(arr) calls element.exp())
    def sqrt(self):
        if not self.is_real:
            raise Unsupported("sqrt of a complex symbolic value")
        if self.is_const:
            if self.re < 0:
                raise Unsupported("sqrt of a negative constant")
            r = _exact_sqrt(self.re)
            if r is not None:
                return S(r)
        return ctx().sqrt_of(self)

    def exp(self):
        return ctx().exp(self)

    def log(self):
        return ctx().fn1("log", self)

    def sin(self):
        return ctx().trig(self, "sin")

    def cos(self):
        return ctx().trig(self, "cos")

    def deg2rad(self):
        return self * (math.pi / 180.0)

    def rad2deg(self):
        return self * (180.0 / math.pi)

    def sinh(self):
        return ctx().fn1("sinh", self)

    def arcsinh(self):
        return ctx().fn1("asinh", self)

    def floor(self):
        if self.is_const and self.is_real:
            return S(Fraction(math.floor(self.re)))
        return ctx().floor(self)

    def ceil(self):
        if self.is_const and self.is_real:
            return S(Fraction(math.ceil(self.re)))
        return -((-self).floor())

    def __floor__(self):
        return self.floor()

    def __ceil__(self):
        return self.ceil()

    def rint(self):
        if self.is_const and self.is_real:
            return S(Fraction(round(self.re)))
        return (self + Fraction(1, 2)).floor_unique()

    def floor_unique(self):
        """floor of a term whose integer part is the same for every admissible input on this path
        (checked concretisation: the solver must refute any other integer part)"""
        if self.is_const and self.is_real:
            return S(Fraction(math.floor(self.re)))
        c = ctx()
        t = z3.simplify(_z(self.re))
        if z3.is_rational_value(t) or z3.is_int_value(t):
            return S(Fraction(math.floor(_q(t))))
        s = c.solver()
        s.add(*c.path_condition())
        if s.check() != z3.sat:
            raise PathAbort("infeasible")
        k = math.floor(_q(s.model().eval(t, model_completion=True)))
        s.add(z3.Or(t < k, t >= k + 1))
        t0 = time.perf_counter()
        r = s.check()
        c.solver_s += time.perf_counter() - t0
        c.queries += 1
        if r != z3.unsat:
            raise Unsupported("floor/round/mod of a symbolic value whose integer part is not determined by the path")
        return S(Fraction(k))

    def __mod__(self, n):
        n = to_S(n)
        if not (n.is_const and n.is_real and n.re > 0):
            raise Unsupported("modulo by a symbolic value")
        try:
            k = (self / n).floor_unique()
        except Unsupported:
            k = ctx().floor(self / n)             # integer part depends on the input: symbolic floor (mixed int/real query)
        return self - n * k

    def __floordiv__(self, n):
        n = to_S(n)
        if not (n.is_const and n.is_real and n.re > 0):
            raise Unsupported("floor division by a symbolic value")
        return (self / n).floor_unique()

    def isnan(self):
        return False

    def isfinite(self):
        return True

    def isinf(self):
        return False

    # ---- comparisons (reals)
    def _cmp(self, o, op):
        o = _coerce(o)
        if o is NotImplemented:
            return o
        if not (self.is_real and o.is_real):
            if op in ("eq", "ne"):
                e = B(z3.And(_z(self.re) == _z(o.re), _z(self.im) == _z(o.im))) if not (self.is_const and o.is_const) \
                    else B(self.re == o.re and self.im == o.im)
                return e if op == "eq" else ~e
            raise Unsupported("ordering of complex symbolic values")
        a, b = self.re, o.re
        if _is_const(a) and _is_const(b):
            return B({"lt": a < b, "le": a <= b, "gt": a > b, "ge": a >= b, "eq": a == b, "ne": a != b}[op])
        a, b = _z(a), _z(b)
        return B({"lt": a < b, "le": a <= b, "gt": a > b, "ge": a >= b, "eq": a == b, "ne": a != b}[op])

    def __lt__(self, o):
        return self._cmp(o, "lt")

    def __le__(self, o):
        return self._cmp(o, "le")

    def __gt__(self, o):
        return self._cmp(o, "gt")

    def __ge__(self, o):
        return self._cmp(o, "ge")

    def __eq__(self, o):
        return self._cmp(o, "eq")

    def __ne__(self, o):
        return self._cmp(o, "ne")

    __hash__ = None

    # ---- concretisation
    def __float__(self):
        if self.is_const and self.im == 0:
            return float(self.re)
        v = ctx().concretize(self)
        return float(v)

    def __int__(self):
        if self.is_const and self.im == 0 and self.re.denominator == 1:
            return int(self.re)
        v = ctx().concretize(self)
        if v.denominator != 1:
            raise Unsupported("int() of a non-integer symbolic value")
        return int(v)

    __index__ = __int__

    def __complex__(self):
        return complex(self.const())

    def __bool__(self):
        return bool(self != 0)

    def __repr__(self):
        def p(x):
            return (str(x) if _is_const(x) else str(x)[:60])
        return f"S({p(self.re)}" + ("" if self.is_real else f", {p(self.im)}") + ")"


class _Inf(S):
    """+inf placeholder: only `x / inf = 0` is supported (every other use is reported as unsupported)"""
    __slots__ = ()

    def __init__(self):
        S.__init__(self, Fraction(10**30))

    def _no(self, *a, **k):
        raise Unsupported("arithmetic on +inf other than x / inf")

    __add__ = __radd__ = __sub__ = __rsub__ = __mul__ = __rmul__ = __neg__ = __abs__ = sqrt = exp = _no

    def __repr__(self):
        return "S(+inf)"


INF = _Inf()


def _exact_sqrt(q: Fraction):
    n, d = q.numerator, q.denominator
    rn, rd = math.isqrt(n), math.isqrt(d)
    if rn * rn == n and rd * rd == d:
        return Fraction(rn, rd)
    return None


def _coerce(o):
    if isinstance(o, S):
        return o
    if isinstance(o, (int, float, complex, Fraction, bool, B)):
        return to_S(o)
    try:
        import numpy as np
        if isinstance(o, np.generic):
            return to_S(o)
        if isinstance(o, np.ndarray):
            return NotImplemented            # let the array broadcast
    except ImportError:  # pragma: no cover
        pass
    try:
        import torch
        if isinstance(o, torch.Tensor):
            return to_S(o) if o.ndim == 0 else NotImplemented
    except ImportError:  # pragma: no cover
        pass
    return NotImplemented


class B:
    """symbolic boolean; bool(b) forks the exploration"""
    __slots__ = ("term",)

    def __init__(self, term):
        self.term = term

    def __bool__(self):
        if isinstance(self.term, bool):
            return self.term
        return ctx().decide(self.term)

    def __and__(self, o):
        o = o if isinstance(o, B) else B(bool(o))
        if isinstance(self.term, bool):
            return o if self.term else B(False)
        if isinstance(o.term, bool):
            return self if o.term else B(False)
        return B(z3.And(self.term, o.term))

    __rand__ = __and__

    def __or__(self, o):
        o = o if isinstance(o, B) else B(bool(o))
        if isinstance(self.term, bool):
            return B(True) if self.term else o
        if isinstance(o.term, bool):
            return B(True) if o.term else self
        return B(z3.Or(self.term, o.term))

    __ror__ = __or__

    def __invert__(self):
        return B(not self.term) if isinstance(self.term, bool) else B(z3.Not(self.term))

    def logical_not(self):
        return ~self

    def z(self):
        return z3.BoolVal(self.term) if isinstance(self.term, bool) else self.term

    def __repr__(self):
        return f"B({self.term})"


def resolve_B(b):
    """True / False if the assumptions and the path decide the condition (two bounded solver queries), else None"""
    if not isinstance(b, B):
        return bool(b)
    if isinstance(b.term, bool):
        return b.term
    if not _CTX:
        return None
    cx = _CTX[-1]
    key = b.term.get_id()
    if key not in cx.ite_cache:
        verdict = None
        if cx.check([z3.Not(b.term)], timeout_ms=1500) == "unsat":
            verdict = True
        elif cx.check([b.term], timeout_ms=1500) == "unsat":
            verdict = False
        cx.ite_cache[key] = verdict
    return cx.ite_cache[key]


def where(c, a, b):
    """ite on scalars; a condition that the assumptions decide is resolved (checked by the solver)
    so that guards such as clamp_min(1e-12) do not stay in the terms"""
    if isinstance(c, B):
        if isinstance(c.term, bool):
            return to_S(a) if c.term else to_S(b)
        if _CTX and getattr(_CTX[-1], "resolve_ite", True):
            cx = _CTX[-1]
            key = c.term.get_id()
            if key not in cx.ite_cache:
                verdict = None
                if cx.check([z3.Not(c.term)], timeout_ms=1500) == "unsat":
                    verdict = True
                elif cx.check([c.term], timeout_ms=1500) == "unsat":
                    verdict = False
                cx.ite_cache[key] = verdict
            if cx.ite_cache[key] is not None:
                return to_S(a) if cx.ite_cache[key] else to_S(b)
        a, b = to_S(a), to_S(b)
        return S(z3.If(c.term, _z(a.re), _z(b.re)),
                 Fraction(0) if (a.is_real and b.is_real) else z3.If(c.term, _z(a.im), _z(b.im)))
    return to_S(a) if c else to_S(b)


# ----------------------------------------------------------------------------------------- context
class Ctx:
    def __init__(self, name="ctx"):
        self.name = name
        self.assumptions: list = []       # input preconditions
        self.side: list = []              # definitional constraints of fresh symbols (sqrt, atoms, UF laws)
        self.symbols: dict = {}           # name -> z3 const (inputs)
        self.defs: list = []              # (z3 const, kind, payload) evaluation order of fresh symbols
        self.n_fresh = 0
        self.decisions: list = []         # current path: list of (term, bool)
        self.prefix: list = []            # decisions to replay
        self.pending: list = []           # explorer work list
        self.angles: dict = {}            # z3 const id -> (const, unit Fraction, c atom, s atom)
        self.uf: dict = {}                # name -> z3 Function
        self.uf_apps: dict = {}           # name -> list of (arg term, result term)
        self.queries = 0
        self.solver_s = 0.0
        self.max_paths = 64
        self.sqrt_cache = {}
        self.sqrt_arg = {}                # id of a sqrt symbol -> its radicand
        self.opaque = {}                  # id of an angle term -> its opaque (cos, sin) symbols
        self.ite_cache = {}

    def __enter__(self):
        _CTX.append(self)
        return self

    def __exit__(self, *a):
        _CTX.pop()
        return False

    # ---- inputs
    def real(self, name, lo=None, hi=None, positive=False, nonneg=False):
        v = z3.Real(name)
        self.symbols[name] = v
        if lo is not None:
            self.assumptions.append(v >= _z(_frac(lo)))
        if hi is not None:
            self.assumptions.append(v <= _z(_frac(hi)))
        if positive:
            self.assumptions.append(v > 0)
        if nonneg:
            self.assumptions.append(v >= 0)
        return S(v)

    def cplx(self, name, box=None):
        a = self.real(name + ".re", *(box or (None, None)))
        b = self.real(name + ".im", *(box or (None, None)))
        return S(a.re, b.re)

    def angle(self, name, unit=1):
        """a real input that may appear inside exp(i.)/cos/sin with integer multiples of `unit`"""
        v = z3.Real(name)
        self.symbols[name] = v
        c, s = z3.Real(name + ".cos"), z3.Real(name + ".sin")
        self.side.append(c * c + s * s == 1)
        self.angles[v.get_id()] = (v, _frac(unit), c, s)
        self.defs.append((c, "cos_unit", (v, _frac(unit))))
        self.defs.append((s, "sin_unit", (v, _frac(unit))))
        return S(v)

    def assume(self, b):
        self.assumptions.append(b.z() if isinstance(b, B) else b)

    def fresh(self, hint="t"):
        self.n_fresh += 1
        return z3.Real(f"_{hint}{self.n_fresh}")

    # ---- derived symbols
    def sqrt_of(self, x: S, hint="sqrt"):
        key = _z(x.re).get_id() if not _is_const(x.re) else ("c", x.re)
        if key in self.sqrt_cache:
            return S(self.sqrt_cache[key])
        r = self.fresh(hint)
        self.side.append(r >= 0)
        self.side.append(r * r == _z(x.re))
        self.defs.append((r, "sqrt", _z(x.re)))
        self.sqrt_cache[key] = r
        self.sqrt_arg[r.get_id()] = x.re
        return S(r)

    def floor(self, x: S):
        if not x.is_real:
            raise Unsupported("floor of complex")
        f = self.fresh("floor")
        k = z3.Int(f"_k{self.n_fresh}")
        self.side.append(f == z3.ToReal(k))
        self.side.append(f <= _z(x.re))
        self.side.append(_z(x.re) < f + 1)
        self.defs.append((f, "floor", _z(x.re)))
        return S(f)

    def _uf(self, name):
        if name not in self.uf:
            self.uf[name] = z3.Function(name, z3.RealSort(), z3.RealSort())
            self.uf_apps[name] = []
        return self.uf[name]

    def fn1(self, name, x: S):
        """real transcendental function as an uninterpreted function + instantiated laws"""
        if not x.is_real:
            raise Unsupported(f"{name} of a complex symbolic value")
        if x.is_const:
            v = float(x.re)
            table = {"log": (math.log, {1: 0}), "exp": (math.exp, {0: 1}), "sinh": (math.sinh, {0: 0}),
                     "asinh": (math.asinh, {0: 0})}
            fn, exact = table[name]
            if x.re in exact:
                return S(Fraction(exact[x.re]))
            # an inexact constant: keep it as f(const) so that the laws stay sound
        f = self._uf(name)
        arg = _z(x.re)
        out = f(arg)
        self.uf_apps[name].append((arg, out))
        return S(out)

    def power(self, base: S, p: S):
        """x ** p for real x >= 0 and real p (possibly symbolic): uninterpreted pow(x, p)"""
        if not (base.is_real and p.is_real):
            raise Unsupported("complex power")
        if "pow" not in self.uf:
            self.uf["pow"] = z3.Function("pow", z3.RealSort(), z3.RealSort(), z3.RealSort())
            self.uf_apps["pow"] = []
        out = self.uf["pow"](_z(base.re), _z(p.re))
        self.uf_apps["pow"].append(((_z(base.re), _z(p.re)), out))
        return S(out)

    def exp(self, x: S):
        if x.is_const:
            if x.im == 0:
                return self.fn1("exp", x) if x.re != 0 else S(Fraction(1))
            c, s = _const_cos_sin(float(x.im))
            if x.re == 0:
                return S(c, s)
            m = _frac(math.exp(float(x.re)))
            return S(m * c, m * s)
        mag = S(Fraction(1)) if (_is_const(x.re) and x.re == 0) else self.fn1("exp", S(x.re))
        if _is_const(x.im) and x.im == 0:
            return mag
        c, s = self.cos_sin(S(x.im))
        return S(_mul(mag.re, c.re), _mul(mag.re, s.re))

    def trig(self, x: S, which):
        if not x.is_real:
            raise Unsupported("trig of complex")
        if x.is_const:
            c, s = _const_cos_sin(float(x.re))
            return S(c if which == "cos" else s)
        c, s = self.cos_sin(x)
        return c if which == "cos" else s

    # ---- phasor algebra: cos/sin of an integer combination of angle atoms (+ a constant)
    def opaque_angle(self, theta: S):
        """cos/sin of an arbitrary real term: a fresh unit vector per distinct term (sound for unsat:
        relations between different angles are forgotten)"""
        t = _z(theta.re)
        key = t.get_id()
        if key not in self.opaque:
            self.n_fresh += 1
            c, s = z3.Real(f"_cos{self.n_fresh}"), z3.Real(f"_sin{self.n_fresh}")
            self.side.append(c * c + s * s == 1)
            self.defs.append((c, "cos_of", t))
            self.defs.append((s, "sin_of", t))
            self.opaque[key] = (c, s)
        c, s = self.opaque[key]
        return S(c), S(s)

    def cos_sin(self, theta: S):
        try:
            return self._cos_sin_atoms(theta)
        except Unsupported:
            return self.opaque_angle(theta)

    def _cos_sin_atoms(self, theta: S):
        lin, const = linear_form(_z(theta.re))
        c_tot, s_tot = S(Fraction(1)), S(Fraction(0))
        if const != 0:
            c_tot, s_tot = S(_frac(math.cos(float(const)))), S(_frac(math.sin(float(const))))
        for vid, (var, coef) in lin.items():
            if vid not in self.angles:
                raise Unsupported(f"cos/sin of a term that is not an angle atom: {var}")
            _, unit, c, s = self.angles[vid]
            k = coef / unit
            kr = round(k)
            if abs(k - kr) > Fraction(1, 10**6) * max(1, abs(kr)):
                raise Unsupported(f"angle coefficient {float(k)} is not an integer multiple of the atom's unit")
            ck, sk = _cheb(S(c), S(s), int(kr))
            c_tot, s_tot = c_tot * ck - s_tot * sk, s_tot * ck + c_tot * sk
        return c_tot, s_tot

    # ---- path exploration
    def decide(self, term):
        i = len(self.decisions)
        if i < len(self.prefix):
            val = self.prefix[i]
            self.decisions.append((term, val))
            return val
        can_t = self.check([term]) != "unsat"
        can_f = self.check([z3.Not(term)]) != "unsat"
        if can_t and can_f:
            self.pending.append([d[1] for d in self.decisions] + [False])
            val = True
        elif can_t:
            val = True
        elif can_f:
            val = False
        else:
            raise PathAbort("infeasible path")
        self.decisions.append((term, val))
        self.prefix.append(val)
        return val

    def path_condition(self):
        return [t if v else z3.Not(t) for t, v in self.decisions]

    def concretize(self, x: S):
        """the value of a term if the path condition forces a single one (checked by the solver)"""
        if not x.is_real:
            raise Unsupported("concretize complex")
        s = self.solver()
        s.add(*self.path_condition())
        if s.check() != z3.sat:
            raise PathAbort("infeasible")
        v = s.model().eval(_z(x.re), model_completion=True)
        s.add(_z(x.re) != v)
        t = time.perf_counter()
        r = s.check()
        self.solver_s += time.perf_counter() - t
        self.queries += 1
        if r != z3.unsat:
            raise Unsupported("a symbolic value that is not determined by the path was used as a concrete number")
        return _q(v)

    # ---- solver
    def uf_axioms(self):
        """laws of the transcendental functions, instantiated on the argument terms that occur"""
        ax = []
        mono = {"log", "exp", "sinh", "asinh"}
        for name, apps in self.uf_apps.items():
            if name == "pow":
                for (b1, p1), o1 in apps:
                    ax.append(z3.Implies(b1 >= 0, o1 >= 0))
                    ax.append(z3.Implies(b1 == 0, z3.Implies(p1 > 0, o1 == 0)))
                    ax.append(z3.Implies(b1 == 1, o1 == 1))
                    ax.append(z3.Implies(p1 == 1, o1 == b1))
                    ax.append(z3.Implies(z3.And(b1 >= 0, b1 <= 1, p1 > 0), o1 <= 1))
                    ax.append(z3.Implies(z3.And(b1 >= 1, p1 > 0), o1 >= 1))
                    ax.append(z3.Implies(z3.And(b1 > 0, p1 > 0), o1 > 0))
                    for (b2, p2), o2 in apps:
                        if o1 is o2:
                            continue
                        # strictly increasing in the base for a common positive exponent
                        ax.append(z3.Implies(z3.And(p1 == p2, p1 > 0, b1 >= 0, b2 >= 0, b1 < b2), o1 < o2))
                        ax.append(z3.Implies(z3.And(p1 == p2, b1 == b2), o1 == o2))
                        # (x^p)^(1/p) = x
                        ax.append(z3.Implies(z3.And(b2 == o1, p1 * p2 == 1, b1 >= 0, p1 > 0), o2 == b1))
                continue
            for a1, o1 in apps:
                if name == "log":
                    ax += [z3.Implies(a1 == 1, o1 == 0), z3.Implies(a1 > 1, o1 > 0), z3.Implies(z3.And(a1 > 0, a1 < 1), o1 < 0)]
                if name == "exp":
                    ax += [o1 > 0, z3.Implies(a1 == 0, o1 == 1), z3.Implies(a1 > 0, o1 > 1), z3.Implies(a1 < 0, o1 < 1)]
                if name in ("sinh", "asinh"):
                    ax += [z3.Implies(a1 == 0, o1 == 0), z3.Implies(a1 > 0, o1 > 0), z3.Implies(a1 < 0, o1 < 0)]
                for a2, o2 in apps:
                    if o1 is o2:
                        continue
                    if name in mono:
                        ax.append(z3.Implies(a1 < a2, o1 < o2))
                        ax.append(z3.Implies(a1 == a2, o1 == o2))
                    if name in ("sinh", "asinh"):           # odd and increasing
                        ax.append(z3.Implies(a1 == -a2, o1 == -o2))
                        ax.append(z3.Implies(a1 > -a2, o1 > -o2))
                        ax.append(z3.Implies(a1 < -a2, o1 < -o2))
            inv = {"log": "exp", "exp": "log", "sinh": "asinh", "asinh": "sinh"}.get(name)
            if inv in self.uf_apps:
                for a1, o1 in apps:
                    for a2, o2 in self.uf_apps[inv]:
                        # f(g(x)) = x : if the argument of f is g's output
                        dom_ok = (a2 > 0) if inv == "log" else z3.BoolVal(True)
                        if name == "log":
                            dom_ok = z3.And(dom_ok, a1 > 0)
                        ax.append(z3.Implies(z3.And(a1 == o2, dom_ok), o1 == a2))
                        # f increasing and f(g(s)) = s: compare f's argument with g's output
                        ax.append(z3.Implies(z3.And(a1 < o2, dom_ok), o1 < a2))
                        ax.append(z3.Implies(z3.And(a1 > o2, dom_ok), o1 > a2))
                        if name in ("sinh", "asinh"):
                            ax.append(z3.Implies(a1 == -o2, o1 == -a2))
                            ax.append(z3.Implies(a1 > -o2, o1 > -a2))
                            ax.append(z3.Implies(a1 < -o2, o1 < -a2))
        return ax

    def relevant_side(self, formulas):
        """definitional constraints (sqrt, atoms, floors) connected to the variables of the given formulas: a sqrt symbol that
        the real code computed but that does not reach the claim must not turn a linear query into a non-linear one"""
        if not hasattr(self, "_side_vars"):
            self._side_vars = {}
        need = set()
        for f in formulas:
            need |= _consts_of(f)
        chosen, changed = [], True
        pool = list(self.side)
        while changed:
            changed = False
            rest = []
            for c in pool:
                key = c.get_id()
                if key not in self._side_vars:
                    self._side_vars[key] = _consts_of(c)
                if self._side_vars[key] & need:
                    chosen.append(c)
                    need |= self._side_vars[key]
                    changed = True
                else:
                    rest.append(c)
            pool = rest
        return chosen

    def solver(self, logic=None, timeout_ms=60000, focus=None):
        s = z3.SolverFor(logic) if logic else z3.Solver()
        s.set("timeout", timeout_ms)
        s.add(*self.assumptions)
        if focus is not None:
            s.add(*self.relevant_side(list(focus) + list(self.assumptions) + self.path_condition()))
            ax = self.uf_axioms()
            if ax:
                s.add(*ax)
            return s
        s.add(*self.side)
        ax = self.uf_axioms()
        if ax:
            s.add(*ax)
        return s

    def check(self, extra, logic=None, timeout_ms=20000):
        s = self.solver(logic or getattr(self, "decide_logic", None), timeout_ms)
        s.add(*self.path_condition())
        s.add(*extra)
        t = time.perf_counter()
        r = s.check()
        self.solver_s += time.perf_counter() - t
        self.queries += 1
        return str(r)


def _const_cos_sin(theta: float):
    """cos/sin of a constant angle: exact at multiples of pi/2 (within 1e-9), float64 otherwise"""
    q = theta / (math.pi / 2)
    k = round(q)
    if abs(q - k) < 1e-9:
        c, s = [(1, 0), (0, 1), (-1, 0), (0, -1)][k % 4]
        return Fraction(c), Fraction(s)
    if _CTX:
        _CTX[-1].inexact = True
    # an inexact constant anyway: a 12-digit rational keeps the solver's arithmetic small (claims that depend on
    # such constants are asked with a tolerance >= 1e-9)
    return (Fraction(math.cos(theta)).limit_denominator(10**12), Fraction(math.sin(theta)).limit_denominator(10**12))


def unique_argmax(values):
    """index of the strict maximum of a list of real S, provided it is the same index for every admissible
    input on this path (checked concretisation: one model proposes the index, a second query must refute
    that any other entry reaches it); otherwise the caller falls back to forking comparisons"""
    c = ctx()
    vals = [to_S(v) for v in values]
    if all(v.is_const for v in vals):
        best = max(range(len(vals)), key=lambda i: vals[i].re)
        return best
    s = c.solver(getattr(c, "decide_logic", None), 30000)
    s.add(*c.path_condition())
    t0 = time.perf_counter()
    r = s.check()
    c.queries += 1
    if r != z3.sat:
        c.solver_s += time.perf_counter() - t0
        raise PathAbort("infeasible") if r == z3.unsat else Unsupported("argmax: solver unknown")
    m = s.model()
    num = [_q(m.eval(_z(v.re), model_completion=True)) for v in vals]
    best = max(range(len(vals)), key=lambda i: num[i])
    others = [_z(v.re) >= _z(vals[best].re) for i, v in enumerate(vals) if i != best]
    if others:
        s.add(z3.Or(*others))
        r = s.check()
        c.queries += 1
        c.solver_s += time.perf_counter() - t0
        if r != z3.unsat:
            return None
    return best


_CONSTS_MEMO = {}


def _consts_of(f):
    """ids of the uninterpreted constants occurring in a z3 term"""
    out, stack, seen = set(), [f], set()
    while stack:
        t = stack.pop()
        i = t.get_id()
        if i in seen:
            continue
        seen.add(i)
        if z3.is_const(t) and t.decl().kind() == z3.Z3_OP_UNINTERPRETED:
            out.add(i)
        else:
            stack.extend(t.children())
    return out


def _q(v):
    """z3 numeral -> Fraction"""
    if z3.is_rational_value(v):
        return Fraction(v.numerator_as_long(), v.denominator_as_long())
    if z3.is_algebraic_value(v):
        return Fraction(v.approx(30).numerator_as_long(), v.approx(30).denominator_as_long())
    if z3.is_int_value(v):
        return Fraction(v.as_long())
    raise Unsupported(f"non-numeral model value {v}")


def _cheb(c: S, s: S, k: int):
    """(cos(k a), sin(k a)) as polynomials in (c, s) = (cos a, sin a)"""
    if k < 0:
        ck, sk = _cheb(c, s, -k)
        return ck, -sk
    ck, sk = S(Fraction(1)), S(Fraction(0))
    for _ in range(k):
        ck, sk = ck * c - sk * s, sk * c + ck * s
    return ck, sk


def linear_form(t):
    """z3 real term -> ({var id: (var, Fraction coef)}, Fraction const); Unsupported if not linear"""
    t = z3.simplify(t, som=True)
    out: dict = {}
    const = [Fraction(0)]

    def walk(e, k: Fraction):
        if z3.is_rational_value(e) or z3.is_int_value(e):
            const[0] += k * _q(e)
            return
        if z3.is_const(e) and e.decl().kind() == z3.Z3_OP_UNINTERPRETED:
            vid = e.get_id()
            prev = out.get(vid, (e, Fraction(0)))[1]
            out[vid] = (e, prev + k)
            return
        kind = e.decl().kind()
        if kind == z3.Z3_OP_ADD:
            for ch in e.children():
                walk(ch, k)
            return
        if kind == z3.Z3_OP_SUB:
            ch = e.children()
            walk(ch[0], k)
            for c2 in ch[1:]:
                walk(c2, -k)
            return
        if kind == z3.Z3_OP_UMINUS:
            walk(e.children()[0], -k)
            return
        if kind == z3.Z3_OP_MUL:
            ch = e.children()
            consts = [c for c in ch if z3.is_rational_value(c) or z3.is_int_value(c)]
            rest = [c for c in ch if not (z3.is_rational_value(c) or z3.is_int_value(c))]
            if len(rest) == 1:
                kk = k
                for c in consts:
                    kk *= _q(c)
                walk(rest[0], kk)
                return
        if kind == z3.Z3_OP_DIV:
            a, b = e.children()
            if z3.is_rational_value(b) or z3.is_int_value(b):
                walk(a, k / _q(b))
                return
        if kind == z3.Z3_OP_TO_REAL:
            walk(e.children()[0], k)
            return
        raise Unsupported(f"not a linear form over angle atoms: {str(e)[:80]}")
    walk(t, Fraction(1))
    return {k: v for k, v in out.items() if v[1] != 0}, const[0]


# ----------------------------------------------------------------------------------------- evaluation
def evaluate(context: Ctx, parts, assignment: dict):
    """numeric value of z3 real terms under a float assignment of the input symbols (fresh
    symbols are computed from their definitions in creation order)"""
    subs = []
    for name, v in context.symbols.items():
        if name in assignment:
            subs.append((v, _z(_frac(assignment[name]))))
    val = {}

    def ev(t):
        if _is_const(t):
            return float(t)
        r = z3.simplify(z3.substitute(t, *subs)) if subs else z3.simplify(t)
        if z3.is_rational_value(r) or z3.is_int_value(r):
            return float(_q(r))
        if z3.is_algebraic_value(r):
            return float(_q(r))
        raise Unsupported(f"term does not evaluate to a number: {str(r)[:100]}")
    for sym, kind, payload in context.defs:
        if kind == "sqrt":
            x = math.sqrt(max(ev(payload), 0.0))
        elif kind == "floor":
            x = math.floor(ev(payload))
        elif kind == "cos_unit":
            x = math.cos(ev(payload[0]) * float(payload[1]))
        elif kind == "sin_unit":
            x = math.sin(ev(payload[0]) * float(payload[1]))
        else:  # pragma: no cover
            raise Unsupported(kind)
        subs.append((sym, _z(_frac(x))))
        val[sym] = x
    return [ev(p) for p in parts]


# ----------------------------------------------------------------------------------------- differentiation
def diff_term(t, wrt: dict, memo=None):
    """d t / d u for a z3 real term t built from + - * / and integer powers, where `wrt` maps the
    id of a z3 constant to its derivative (a z3 term or Fraction): plain variables have
    derivative 1/0, the (cos, sin) atoms of an angle have (-sin, cos)."""
    memo = {} if memo is None else memo
    i = t.get_id()
    if i in memo:
        return memo[i]
    if i in wrt:
        r = wrt[i]
    elif z3.is_rational_value(t) or z3.is_int_value(t) or z3.is_algebraic_value(t):
        r = Fraction(0)
    elif z3.is_const(t):
        r = Fraction(0)
    else:
        k = t.decl().kind()
        ch = t.children()
        if k == z3.Z3_OP_ADD:
            r = Fraction(0)
            for c in ch:
                r = _add(r, diff_term(c, wrt, memo))
        elif k == z3.Z3_OP_SUB:
            r = diff_term(ch[0], wrt, memo)
            for c in ch[1:]:
                r = _sub(r, diff_term(c, wrt, memo))
        elif k == z3.Z3_OP_UMINUS:
            r = _neg(diff_term(ch[0], wrt, memo))
        elif k == z3.Z3_OP_MUL:
            r = Fraction(0)
            for j, c in enumerate(ch):
                d = diff_term(c, wrt, memo)
                if _is_const(d) and d == 0:
                    continue
                term = d
                for j2, c2 in enumerate(ch):
                    if j2 != j:
                        term = _mul(term, c2)
                r = _add(r, term)
        elif k == z3.Z3_OP_DIV:
            a, b = ch
            da, db = diff_term(a, wrt, memo), diff_term(b, wrt, memo)
            if _is_const(db) and db == 0:
                r = _div(da, b)
            else:
                r = _div(_sub(_mul(da, b), _mul(a, db)), _mul(b, b))
        elif k == z3.Z3_OP_POWER and (z3.is_int_value(ch[1]) or z3.is_rational_value(ch[1])):
            n = _q(ch[1])
            r = _mul(_mul(n, ch[0] ** _z(n - 1)), diff_term(ch[0], wrt, memo))
        else:
            raise Unsupported(f"differentiation of {str(t)[:60]}")
    memo[i] = r
    return r


def diff_S(x: S, wrt: dict) -> S:
    x = to_S(x)
    re = Fraction(0) if _is_const(x.re) else diff_term(x.re, wrt)
    im = Fraction(0) if _is_const(x.im) else diff_term(x.im, wrt)
    return S(re, im)


def wrt_var(sym: S):
    """derivative map for a plain real input"""
    return {_z(sym.re).get_id(): Fraction(1)}


def wrt_angle(context: Ctx, sym: S):
    """derivative map for an angle atom a (unit u): d cos(u a)/da = -u sin, d sin(u a)/da = u cos"""
    v, unit, c, s = context.angles[_z(sym.re).get_id()]
    return {c.get_id(): _mul(-unit, s), s.get_id(): _mul(unit, c), v.get_id(): Fraction(1)}
