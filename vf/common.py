"""Shared plumbing: evidence files, known findings, replay files, exit codes.

Exit codes of a check:
  0  property held on everything explored (known findings are printed, not alarmed)
  1  a counterexample produced by the solver reproduced on the real code and is not listed
     in known_findings.json  -> line "VIOLATION property=<id> replay=<path>"
  2  inconclusive (solver unknown / time-out / unmodelled library call / "Not confirmed")
  3  harness error (counterexample does not reproduce, vacuity guard failed, crash)
"""
from __future__ import annotations

import fnmatch
import json
import os
import sys
import time
from pathlib import Path

ROOT = Path(__file__).resolve().parent.parent
# seed-evaluation runs (tools/seed_eval.sh) redirect their output so that the committed evidence always
# comes from the unchanged tree
EVIDENCE_DIR = Path(os.environ.get("VERIF_EVIDENCE_DIR", ROOT / "evidence"))
REPLAY_DIR = Path(os.environ.get("VERIF_REPLAY_DIR", ROOT / "replays"))
KNOWN_FILE = ROOT / "known_findings.json"

DISCHARGED = "discharged"
VIOLATED = "violated"
INCONCLUSIVE = "inconclusive"
ERROR = "error"


def seed() -> int:
    try:
        return int(os.environ.get("VERIF_SEED", "0"))
    except ValueError:
        return 0


def load_known():
    if not KNOWN_FILE.exists():
        return []
    return json.loads(KNOWN_FILE.read_text()).get("findings", [])


class Check:
    """Collects obligations of one property check and writes evidence/<id>.json."""

    def __init__(self, pid: str, tier: str, technique: str):
        self.pid = pid
        self.tier = tier
        self.technique = technique
        self.t0 = time.time()
        self.functions: list[str] = []
        self.bounds: dict = {}
        self.assumptions: list[str] = []
        self.stubs: list[str] = []
        self.outside: list[str] = []
        self.obligations: list[dict] = []
        self.samples: list = []
        self.witnesses: list = []
        self.validated = 0
        self.paths = 0
        self.queries = 0
        self.solver_s = 0.0
        self.violations: list[dict] = []   # reproduced counterexamples
        self.errors: list[str] = []
        self.engines: set[str] = set()
        self.cross: dict = {}              # second-solver (cvc5) cross-check of unsat verdicts: agree / no_answer / disagree

    # ------------------------------------------------------------------ recording
    def add_functions(self, *names):
        for n in names:
            if n not in self.functions:
                self.functions.append(n)

    def obligation(self, name, status, *, detail="", solver_s=0.0, paths=0, queries=0,
                   trivial=False, sample=None, engine=""):
        self.obligations.append(dict(name=name, status=status, detail=str(detail)[:600],
                                     solver_s=round(solver_s, 4), paths=paths,
                                     queries=queries, trivial=bool(trivial)))
        self.paths += paths
        self.queries += queries
        self.solver_s += solver_s
        if engine:
            self.engines.add(engine)
        if sample is not None and len(self.samples) < 12:
            self.samples.append(sample)

    def violation(self, key, what, replay_path):
        self.violations.append(dict(key=key, what=what, replay=str(replay_path)))

    def error(self, msg):
        self.errors.append(str(msg)[:2000])

    # ------------------------------------------------------------------ replay files
    def write_replay(self, name: str, body: str) -> Path:
        d = REPLAY_DIR / self.pid
        d.mkdir(parents=True, exist_ok=True)
        safe = "".join(c if c.isalnum() or c in "._-" else "_" for c in name)[:120]
        p = d / f"{safe}.py"
        p.write_text(body)
        return p

    # ------------------------------------------------------------------ finish
    def finish(self) -> int:
        known = [k for k in load_known() if k.get("property") == self.pid]
        known_open = [k for k in known if k.get("status") == "known"]
        new_violations, known_hits = [], []
        for v in self.violations:
            hit = next((k for k in known_open if fnmatch.fnmatchcase(v["key"], k["key"])), None)
            (known_hits if hit else new_violations).append((v, hit))
        n_ob = len(self.obligations)
        n_dis = sum(o["status"] == DISCHARGED for o in self.obligations)
        n_inc = sum(o["status"] == INCONCLUSIVE for o in self.obligations)
        n_err = sum(o["status"] == ERROR for o in self.obligations) + len(self.errors)
        n_nontrivial = len({o["name"] for o in self.obligations
                            if o["status"] == DISCHARGED and not o["trivial"]})
        wall = time.time() - self.t0
        samples = self.samples or [o["name"] for o in self.obligations[:5]]
        coverage = dict(
            obligations=n_ob,
            discharged=n_dis,
            inconclusive=n_inc,
            violated=sum(o["status"] == VIOLATED for o in self.obligations),
            states=max(self.paths, 0),
            transitions=max(self.queries, 0),
            traces_validated_against_impl=self.validated,
            evaluations=max(self.paths, n_ob),
            distinct_nontrivial=n_nontrivial,
            rule=("one obligation = one solver-decided assertion over the real code inside the "
                  "stated bounds; states = symbolic execution paths explored, transitions = "
                  "SMT queries issued; an obligation counts as non-trivial when the solver was "
                  "actually queried for it and it was discharged"),
            samples=samples,
            witnesses=self.witnesses[:10],
            functions_encoded=self.functions,
            bounds=self.bounds,
            outside_the_claim=self.outside,
            stubs=self.stubs,
            solver_time_s=round(self.solver_s, 3),
            engines=sorted(self.engines) + (["cvc5 (cross-check of sampled unsat verdicts)"] if self.cross else []),
            second_solver_cross_check=self.cross,
            technique=self.technique,
            obligation_list=[{k: o[k] for k in ("name", "status", "solver_s", "paths", "queries")}
                             for o in self.obligations][:400],
            not_discharged=[o for o in self.obligations if o["status"] != DISCHARGED][:40],
            known_findings_hit=[v["key"] for v, _ in known_hits],
            harness_errors=self.errors[:10],
            exhaustive=False,
        )
        ev = dict(property_id=self.pid, tier=self.tier, seed=seed(), level="model_checking",
                  coverage=coverage, assumptions=self.assumptions,
                  wall_s=round(wall, 2), violations=len(new_violations))
        EVIDENCE_DIR.mkdir(exist_ok=True)
        (EVIDENCE_DIR / f"{self.pid}.json").write_text(json.dumps(ev, indent=1, default=str))

        printed = set()
        for v, k in known_hits:
            if v["key"] not in printed:
                printed.add(v["key"])
                print(f"KNOWN-FINDING: property={self.pid} {v['key']}: {k.get('what', v['what'])}")
        for v, _ in new_violations:
            print(f"  counterexample [{v['key']}]: {v['what']}")
            print(f"VIOLATION property={self.pid} replay={v['replay']}")
        print(f"[{self.pid}] tier={self.tier} obligations={n_ob} discharged={n_dis} "
              f"inconclusive={n_inc} errors={n_err} violations={len(new_violations)} "
              f"known={len(known_hits)} paths={self.paths} queries={self.queries} "
              f"solver_s={self.solver_s:.1f} wall_s={wall:.1f}")
        if new_violations:
            return 1
        if n_err:
            for e in self.errors[:5]:
                print("  harness error:", e, file=sys.stderr)
            for o in self.obligations:
                if o["status"] == ERROR:
                    print("  harness error:", o["name"], o["detail"], file=sys.stderr)
            return 3
        if n_inc:
            for o in self.obligations:
                if o["status"] == INCONCLUSIVE:
                    print("  inconclusive:", o["name"], o["detail"][:300], file=sys.stderr)
            return 2
        return 0
