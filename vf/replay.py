"""Replay of a CrossHair counterexample on the real code, outside CrossHair.

The harness module may define `real__<fn>` (same signature) that repeats the scenario with
the real libraries (real zarr on disk, ...) instead of the stubs; otherwise the harness
function itself is called concretely (valid for harnesses that use no stub).
Exit / return: 1 = reproduced (function returned False or raised), 0 = not reproduced.
"""
from __future__ import annotations

import importlib.util
import math
import os
import sys
import traceback


def load_module(path):
    path = os.path.abspath(path)
    sys.path.insert(0, os.path.dirname(path))
    name = "vr_" + os.path.basename(path).replace(".", "_")
    spec = importlib.util.spec_from_file_location(name, path)
    mod = importlib.util.module_from_spec(spec)
    sys.modules[name] = mod
    spec.loader.exec_module(mod)
    return mod


def replay_xh(path, fn_name, call_src, fixed=None, verbose=True):
    mod = load_module(path)
    mod.FIXED = fixed or {}
    base = fn_name[:-7] if fn_name.endswith("__reach") else fn_name
    target = getattr(mod, "real__" + base, None) or getattr(mod, base)
    ns = dict(vars(mod))
    ns.update(nan=math.nan, inf=math.inf, math=math)
    ns[fn_name] = target
    ns[base] = target
    try:                                   # the counterexample's arguments must evaluate on their own
        import ast
        node = ast.parse(call_src, mode="eval").body
        assert isinstance(node, ast.Call) and isinstance(node.func, ast.Name)
        args = [eval(compile(ast.Expression(a), "<arg>", "eval"), ns) for a in node.args]
        kwargs = {k.arg: eval(compile(ast.Expression(k.value), "<arg>", "eval"), ns) for k in node.keywords}
    except Exception:
        print("replay: cannot evaluate the counterexample expression:\n" + traceback.format_exc())
        return 3
    try:
        r = target(*args, **kwargs)
    except Exception:
        if verbose:
            print("replay: real code raised:\n" + traceback.format_exc())
        return 1
    if verbose:
        print(f"replay: {call_src} -> {r!r} via {target.__name__}")
    return 0 if r is True else 1
