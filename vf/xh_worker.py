"""Run CrossHair on one harness function in this process and print a JSON result.

usage: python -m vf.xh_worker <harness file> <function> <per_condition_timeout> [fixed-json] [per_path_timeout]

`fixed-json` pins some of the harness's selector arguments (module global FIXED, read by the
harness's `pre: _fix(...)` conditions) so that a large selector space is split over processes.
"""
from __future__ import annotations

import importlib.util
import json
import sys
import time


def load_module(path: str):
    name = "vh_" + path.replace("/", "_").replace(".", "_")
    spec = importlib.util.spec_from_file_location(name, path)
    mod = importlib.util.module_from_spec(spec)
    sys.modules[name] = mod
    spec.loader.exec_module(mod)
    return mod


def main():
    path, fn_name, timeout = sys.argv[1], sys.argv[2], float(sys.argv[3])
    fixed = json.loads(sys.argv[4]) if len(sys.argv) > 4 and sys.argv[4] else {}
    per_path = float(sys.argv[5]) if len(sys.argv) > 5 else None
    import z3
    stats = dict(queries=0, solver_s=0.0)
    _orig_check = z3.Solver.check

    def _counting_check(self, *a, **k):
        t = time.perf_counter()
        try:
            return _orig_check(self, *a, **k)
        finally:
            stats["queries"] += 1
            stats["solver_s"] += time.perf_counter() - t
    z3.Solver.check = _counting_check

    import crosshair.core as core
    from crosshair.core_and_libs import analyze_function, run_checkables
    from crosshair.options import AnalysisKind, AnalysisOptionSet
    from crosshair.util import add_to_pypath
    try:
        from crosshair.main import prefer_pure_python_imports
    except ImportError:  # pragma: no cover
        from contextlib import nullcontext as prefer_pure_python_imports

    tree = dict(paths=0, confirmed=0, status="")
    _orig = core.analyze_calltree

    def _wrapped(options, conditions):
        r = _orig(options, conditions)
        tree["paths"] += int(options.stats.get("num_paths", 0)) if options.stats else 0
        tree["confirmed"] += r.num_confirmed_paths
        tree["status"] = r.verification_status.name
        return r
    core.analyze_calltree = _wrapped

    import os
    sys.path.insert(0, os.path.dirname(os.path.abspath(path)))
    with add_to_pypath(""), prefer_pure_python_imports():
        mod = load_module(path)
        mod.FIXED = fixed
        fn = getattr(mod, fn_name)
        import collections
        opts = AnalysisOptionSet(analysis_kind=[AnalysisKind.PEP316], report_all=True,
                                 per_condition_timeout=timeout, per_path_timeout=per_path,
                                 max_uninteresting_iterations=10**9,
                                 stats=collections.Counter())
        t0 = time.time()
        msgs = run_checkables(analyze_function(fn, opts))
        wall = time.time() - t0
    out = dict(function=fn_name, fixed=fixed, wall_s=round(wall, 2), paths=tree["paths"] or int(opts.stats.get("num_paths", 0)),
               confirmed_paths=tree["confirmed"], status=tree["status"],
               queries=stats["queries"], solver_s=round(stats["solver_s"], 3),
               messages=[dict(state=m.state.name, message=m.message, line=m.line) for m in msgs])
    print("XHRESULT " + json.dumps(out))


if __name__ == "__main__":
    main()
