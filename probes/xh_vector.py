import numpy as np
from quantem.core.datastructures.vector import Vector

def _cell(tag: int, rows: int, nf: int):
    return np.full((rows, nf), float(tag))

def slice1d(n: int, nf: int, start: int, stop: int, step: int) -> bool:
    """
    pre: 1 <= n <= 3 and 1 <= nf <= 2 and -3 <= start <= 3 and -3 <= stop <= 3 and 1 <= step <= 2
    post: __return__ == True
    """
    v = Vector.from_data([_cell(i, 1 + i % 2, nf) for i in range(n)], num_fields=nf)
    want = list(range(n))[start:stop:step]
    if not want:
        return True
    s = v[start:stop:step]
    got = [int(s[i][0, 0]) for i in range(s.shape[0])]
    return got == want

def indep(n1: int, n2: int, key: int) -> bool:
    """
    pre: 1 <= n1 <= 2 and 1 <= n2 <= 2
    post: __return__ == True
    """
    a = Vector.from_shape((n1,), num_fields=1)
    b = Vector.from_shape((n2,), num_fields=1)
    a.metadata[key] = 1
    c = a.copy()
    c.fields.append("zz") if False else None
    return key not in b.metadata
