import numpy as np, torch, math, warnings
warnings.simplefilter("ignore")
rng=np.random.default_rng(1)
from quantem.core.utils import imaging_utils as iu
def fshift(im, s):
    kx=np.fft.fftfreq(im.shape[0])[:,None]; ky=np.fft.fftfreq(im.shape[1])[None,:]
    return np.real(np.fft.ifft2(np.fft.fft2(im)*np.exp(-2j*np.pi*(kx*s[0]+ky*s[1]))))
def blob(shape):
    x=np.arange(shape[0])[:,None]; y=np.arange(shape[1])[None,:]
    im=np.zeros(shape)
    for _ in range(5):
        cx,cy=rng.uniform(0,shape[0]),rng.uniform(0,shape[1]); s=rng.uniform(1.5,3)
        dx=np.minimum(np.abs(x-cx),shape[0]-np.abs(x-cx)); dy=np.minimum(np.abs(y-cy),shape[1]-np.abs(y-cy))
        im+=rng.uniform(.5,1)*np.exp(-(dx**2+dy**2)/(2*s*s))
    return im
for shape in [(16,16),(15,18)]:
    ref=blob(shape)
    for s in [(3,-2),(0,0),(7,8),(2.3,-1.6),(-0.4,0.25)]:
        im=fshift(ref,(-s[0],-s[1]))   # translating im by s reproduces ref
        for up in (1,4,16):
            est=iu.cross_correlation_shift(ref,im,upsample_factor=up)
            est_t=iu.cross_correlation_shift_torch(torch.tensor(ref),torch.tensor(im),upsample_factor=up)
            est_sw=iu.cross_correlation_shift(im,ref,upsample_factor=up)
            sh,al=iu.cross_correlation_shift(ref,im,upsample_factor=up,return_shifted_image=True)
            print(shape,s,up,"np",np.round(est,3),"torch",np.round(est_t.numpy(),3),"swap",np.round(est_sw,3),"aligned err",round(float(np.abs(al-ref).max()),4))
