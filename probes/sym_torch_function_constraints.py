import torch, numpy as np, z3, sys
sys.path.insert(0, __import__("os").path.dirname(__file__))
from symnum_min import Sc, _r, SymArray, sym
import types

HANDLED = {}
def impl(*fs):
    def deco(fn):
        for f in fs: HANDLED[f] = fn
        return fn
    return deco

def arr(x):
    if isinstance(x, ST): return x.a
    if isinstance(x, torch.Tensor): 
        o = np.empty(tuple(x.shape), dtype=object)
        xn = x.detach().numpy()
        for i in np.ndindex(*xn.shape): o[i] = _r(xn[i].item())
        return o
    return x

class ST:
    """symbolic tensor: wraps object ndarray of Sc"""
    def __init__(self, a): self.a = np.asarray(a, dtype=object)
    @property
    def shape(self): return torch.Size(self.a.shape)
    @classmethod
    def __torch_function__(cls, func, types, args=(), kwargs=None):
        kwargs = kwargs or {}
        if func in HANDLED: return HANDLED[func](*args, **kwargs)
        raise NotImplementedError(f"symbolic torch op not modelled: {func}")
    def __mul__(s, o): return ST(s.a * arr(o))
    __rmul__ = __mul__
    def __sub__(s, o): return ST(s.a - arr(o))
    def __add__(s, o): return ST(s.a + arr(o))
    __radd__ = __add__
    def __getitem__(s, i): return ST(s.a[i])
    def __setitem__(s, i, v): s.a[i] = arr(v)
    def angle(s): return torch.angle(s)
    def mean(s, *a, **k): return torch.mean(s, *a, **k)

CONS = []
_n = [0]
def fresh(p):
    _n[0] += 1; return z3.Real(f"{p}{_n[0]}")
def ew(f, a):
    o = np.empty(a.shape, dtype=object)
    for i in np.ndindex(*a.shape): o[i] = f(a[i])
    return o
@impl(torch.abs)
def _abs(x):
    def f(v):
        r = fresh("abs"); CONS.extend([r >= 0, r*r == v.re*v.re + v.im*v.im]); return Sc(r)
    return ST(ew(f, x.a))
@impl(torch.clamp)
def _clamp(x, min=None, max=None):
    def f(v):
        e = v.re
        if min is not None: e = z3.If(e < min, z3.RealVal(min), e)
        if max is not None: e = z3.If(e > max, z3.RealVal(max), e)
        return Sc(e)
    return ST(ew(f, x.a))
@impl(torch.angle, torch.Tensor.angle)
def _angle(x):
    return ST(ew(lambda v: Sc(fresh("ang")), x.a))   # opaque real angle (enough for amplitude claims)
@impl(torch.mean, torch.Tensor.mean)
def _mean(x, dim=None, keepdim=False):
    if dim is None: return ST(np.asarray(np.sum(x.a) / x.a.size, dtype=object))
    return ST(np.sum(x.a, axis=dim, keepdims=keepdim) / x.a.shape[dim])
@impl(torch.exp)
def _exp(x):
    def f(v):   # exp(a+ib) with a provably 0 -> unit phasor
        assert z3.is_true(z3.simplify(v.re == 0)), "only exp(i*real) modelled in probe"
        c, s = fresh("c"), fresh("s"); CONS.append(c*c + s*s == 1); return Sc(c, s)
    return ST(ew(f, x.a))

from quantem.diffractive_imaging.object_models import ObjectConstraints
for obj_type in ("complex", "pure_phase", "potential"):
    CONS.clear()
    fake = types.SimpleNamespace(obj_type=obj_type, constraints=dict(ObjectConstraints.DEFAULT_CONSTRAINTS), num_slices=2, sampling=(1.,1.))
    fake.constraints["identical_slices"] = True
    shape = (2,2,1)
    a = np.empty(shape, dtype=object)
    for i in np.ndindex(*shape):
        a[i] = Sc(z3.Real(f"re{i}"), z3.Real(f"im{i}") if obj_type != "potential" else z3.RealVal(0))
    out = ObjectConstraints.apply_hard_constraints(fake, ST(a), mask=None)
    s = z3.SolverFor("QF_NRA"); s.set("timeout", 60000); s.add(CONS)
    viol = []
    for i in np.ndindex(*shape):
        v = out.a[i]; m2 = v.re*v.re + v.im*v.im
        if obj_type == "complex": viol.append(m2 > 1)
        elif obj_type == "pure_phase": viol.append(m2 != 1)
        else: viol += [v.re < 0, v.im != 0]
    # identical slices
    for i in np.ndindex(2,1):
        viol += [out.a[(0,)+i].re != out.a[(1,)+i].re, out.a[(0,)+i].im != out.a[(1,)+i].im]
    s.add(z3.Or(viol))
    import time; t=time.time(); r = s.check(); print(obj_type, r, round(time.time()-t,2))
    if r == z3.sat:
        m = s.model(); print("  ", {str(d): m[d] for d in m.decls() if str(d).startswith(("re","im"))})
