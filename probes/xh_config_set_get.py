from quantem.core import config as qc
SEGS = ["a", "a_b", "a-b", "c"]

def _canon(seg: str) -> str:
    return seg.replace("-", "_")

def _apply(cfg, model, i, j, nested, val):
    key = SEGS[i] + ("." + SEGS[j] if nested else "")
    parts = [_canon(p) for p in key.split(".")]
    d = model
    for p in parts[:-1]:
        if p in d and not isinstance(d[p], dict):
            try:
                qc.set({key: val}, config=cfg)
            except TypeError:
                return True
            return False
        d = d.setdefault(p, {})
    d[parts[-1]] = val
    qc.set({key: val}, config=cfg)
    alt = key.replace("_", "-") if "_" in key else key.replace("-", "_")
    return qc.get(key, config=cfg) == val and qc.get(alt, config=cfg) == val

def check2(i1: int, j1: int, n1: bool, v1: int, i2: int, j2: int, n2: bool, v2: int) -> bool:
    """
    pre: 0 <= i1 < 4 and 0 <= j1 < 4 and 0 <= i2 < 4 and 0 <= j2 < 4
    post: __return__ == True
    """
    cfg: dict = {}
    model: dict = {}
    if not _apply(cfg, model, i1, j1, n1, v1):
        return False
    if not _apply(cfg, model, i2, j2, n2, v2):
        return False
    return True
