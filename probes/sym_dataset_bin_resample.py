import numpy as np, z3, time
from symnum_min import *
import quantem.core.datastructures.dataset as dsm
from quantem.core.datastructures.dataset import Dataset
dsm.np = make_np_proxy()
t=time.time()
x = sym((5,4))
ds = Dataset.from_array(x, sampling=(0.5, 2.0), origin=(1.0, -1.0))
b = ds.bin((2,3), reducer="mean")
print(type(b.array), b.shape, b.sampling, b.origin)
s = z3.Solver()
viol = []
for i in range(b.shape[0]):
    for j in range(b.shape[1]):
        spec = sum((x[2*i+a, 3*j+c].re for a in range(2) for c in range(3)), z3.RealVal(0)) / 6
        viol.append(b.array[i,j].re != spec)
s.add(z3.Or(viol))
print("bin:", s.check(), time.time()-t)
for shp, up in [((4,2),(8,4)), ((3,4),(5,8)), ((6,),(9,))]:
    t=time.time()
    x = sym(shp)
    ds = Dataset.from_array(x)
    r = ds.fourier_resample(out_shape=shp)
    s = z3.Solver(); s.add(z3.Or([r.array[i].re != x[i].re for i in np.ndindex(*shp)]))
    print(shp, "identity:", s.check(), time.time()-t)
    u = ds.fourier_resample(out_shape=up)
    n_in = int(np.prod(shp)); n_out = int(np.prod(up))
    m_in = sum((x[i].re for i in np.ndindex(*shp)), z3.RealVal(0))/n_in
    m_out = sum((u.array[i].re for i in np.ndindex(*up)), z3.RealVal(0))/n_out
    s = z3.Solver(); s.add(m_in != m_out); print(" mean exact:", s.check(), time.time()-t)
    s = z3.Solver(); 
    for i in np.ndindex(*shp): s.add(x[i].re >= -1, x[i].re <= 1)
    d = m_in - m_out
    s.add(z3.Or(d > 1e-9, d < -1e-9)); print(" mean tol:", s.check(), time.time()-t)
    back = u.fourier_resample(out_shape=shp)
    s = z3.Solver()
    for i in np.ndindex(*shp): s.add(x[i].re >= -1, x[i].re <= 1)
    s.add(z3.Or([z3.Or(back.array[i].re - x[i].re > 1e-9, back.array[i].re - x[i].re < -1e-9) for i in np.ndindex(*shp)]))
    r_ = s.check(); print(" up-down tol:", r_, time.time()-t)
    if r_ == z3.sat:
        m = s.model(); print("  cex", [m.eval(x[i].re) for i in np.ndindex(*shp)])
    print(" ", u.sampling, u.origin)
