import z3, time
def cheb(m, c, s):
    # returns (cos(m t), sin(m t)) as polynomials in c=cos t, s=sin t
    C, S = z3.RealVal(1), z3.RealVal(0)
    for _ in range(m):
        C, S = C*c - S*s, S*c + C*s
    return C, S
c,s,c0,s0,a,C,lam = z3.Reals("c s c0 s0 a C lam")
for n,m in [(1,2),(2,3),(5,6),(4,5)]:
    t=time.time()
    Cm, Sm = cheb(m,c,s); C0, S0 = cheb(m,c0,s0)
    # polar: cos(m(phi-phi0)) = cos(m phi)cos(m phi0)+ sin sin   [this is what the shim's angle algebra produces]
    polar = (z3.RealVal(1)/(n+1)) * a**(n+1) * C * (Cm*C0 + Sm*S0)
    cart = (z3.RealVal(1)/(n+1)) * a**(n+1) * ((C*C0)*Cm + (C*S0)*Sm)
    sol = z3.Solver(); sol.add(polar != cart)
    print(n,m,"surface:", sol.check(), round(time.time()-t,3))
    # gradient: d/dphi of cos(m(phi-phi0)) = -m sin(m(phi-phi0)); check chain through c,s derivative:
    # d/dphi f(c,s) = -s df/dc + c df/ds  -- need symbolic derivative; emulate with known forms:
    # code's dchi_dphi term: -(1/(n+1)) a^(n+1) * m*C*sin(m(phi-phi0)) ; sin(m(phi - phi0)) = Sm*C0 - Cm*S0
    code = -(z3.RealVal(1)/(n+1)) * a**(n+1) * (m*C*(Sm*C0 - Cm*S0))
    # true derivative computed by differentiating Chebyshev recursively
    def dcheb(m):
        Cc, Ss, dC, dS = z3.RealVal(1), z3.RealVal(0), z3.RealVal(0), z3.RealVal(0)
        # d/dphi c = -s ; d/dphi s = c
        for _ in range(m):
            nC, nS = Cc*c - Ss*s, Ss*c + Cc*s
            ndC = dC*c + Cc*(-s) - dS*s - Ss*c
            ndS = dS*c + Ss*(-s) + dC*s + Cc*c
            Cc, Ss, dC, dS = nC, nS, ndC, ndS
        return dC, dS
    dCm, dSm = dcheb(m)
    true = (z3.RealVal(1)/(n+1)) * a**(n+1) * C * (dCm*C0 + dSm*S0)
    sol = z3.Solver(); sol.set("timeout", 60000)
    sol.add(c*c+s*s==1, c0*c0+s0*s0==1, true != code)
    print(n,m,"grad(with circle constraint):", sol.check(), round(time.time()-t,3))
    # mutated: wrong factor
    bad = -(z3.RealVal(1)/(n+1)) * a**(n+1) * ((m+1)*C*(Sm*C0 - Cm*S0))
    sol = z3.Solver(); sol.set("timeout", 60000)
    sol.add(c*c+s*s==1, c0*c0+s0*s0==1, true != bad)
    r = sol.check(); print(n,m,"mutant:", r, round(time.time()-t,3))
    if r==z3.sat: print("   ", sol.model())
