from typing import List, Tuple
import numpy as np
from pathlib import Path
from quantem.core.io.serialize import AutoSerialize
from memstore import MemGroup

class Obj(AutoSerialize):
    pass

ARRS = [np.array(3.5, dtype=np.float32), np.zeros((0, 2), dtype=np.int16), np.arange(3)]

def _mk(kind: int, i: int, f: float, s: str, b: bool):
    k = kind
    if k == 0: return i
    if k == 1: return f
    if k == 2: return s
    if k == 3: return b
    if k == 4: return None
    if k == 5: return [i, s]
    if k == 6: return (i, i + 1)
    if k == 7: return {"k": i, "m": [s]}
    if k == 8: return {i, i + 1}
    if k == 9: return Path("x") / "y"
    if k == 10: return ARRS[0]
    if k == 11: return ARRS[1]
    if k == 12: return ARRS[2]
    if k == 13: return [s, {"q": (i,)}]
    return []

def _eq(a, b) -> bool:
    if type(a) is not type(b):
        return False
    if isinstance(a, np.ndarray):
        return a.dtype == b.dtype and a.shape == b.shape and bool(np.array_equal(a, b))
    if isinstance(a, (list, tuple)):
        return len(a) == len(b) and all(_eq(x, y) for x, y in zip(a, b))
    if isinstance(a, dict):
        return set(a) == set(b) and all(_eq(a[k], b[k]) for k in a)
    if isinstance(a, float):
        return a == b or (a != a and b != b)
    return a == b

def roundtrip(kind: int, i: int, f: float, s: str, b: bool) -> bool:
    """
    pre: 0 <= kind <= 14 and kind != 8 and kind != 10
    pre: len(s) <= 2
    pre: -2**62 < i < 2**62
    post: __return__ == True
    """
    o = Obj()
    o.v = _mk(kind, i, f, s, b)
    g = MemGroup()
    o._recursive_save(o, g, set(), (), None)
    o2 = Obj._recursive_load(g)
    return set(vars(o2)) == {"v"} and _eq(o.v, o2.v)
