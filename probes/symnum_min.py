"""Probe: term-valued ndarray subclass executing real numpy code."""
import numpy as np, z3
from fractions import Fraction

def _r(v):
    if isinstance(v, Sc): return v
    if isinstance(v, (bool, np.bool_)): return Sc(z3.RealVal(int(v)))
    if isinstance(v, (int, np.integer)): return Sc(z3.RealVal(int(v)))
    if isinstance(v, (float, np.floating)):
        f = Fraction(float(v)); return Sc(z3.RealVal(f.numerator) / z3.RealVal(f.denominator))
    if isinstance(v, (complex, np.complexfloating)):
        return Sc(_r(v.real).re, _r(v.imag).re)
    raise TypeError(type(v))

ZERO = z3.RealVal(0)
class Sc:
    """complex scalar term: re, im z3 Real terms"""
    __array_priority__ = 1000
    def __init__(self, re, im=None):
        self.re = re; self.im = ZERO if im is None else im
    def __add__(s, o): o=_r(o); return Sc(s.re+o.re, s.im+o.im)
    __radd__ = __add__
    def __sub__(s, o): o=_r(o); return Sc(s.re-o.re, s.im-o.im)
    def __rsub__(s, o): o=_r(o); return Sc(o.re-s.re, o.im-s.im)
    def __mul__(s, o): o=_r(o); return Sc(s.re*o.re - s.im*o.im, s.re*o.im + s.im*o.re)
    __rmul__ = __mul__
    def __truediv__(s, o):
        o=_r(o); d = o.re*o.re+o.im*o.im
        return Sc((s.re*o.re+s.im*o.im)/d, (s.im*o.re-s.re*o.im)/d)
    def __neg__(s): return Sc(-s.re, -s.im)
    def conjugate(s): return Sc(s.re, -s.im)
    def simp(s): return Sc(z3.simplify(s.re), z3.simplify(s.im))

class SymArray(np.ndarray):
    def __new__(cls, data):
        a = np.asarray(data, dtype=object).view(cls)
        return a
    def astype(self, dtype, *a, **k):
        return self.copy()
    @property
    def real(self):
        out = np.empty(self.shape, dtype=object)
        for i in np.ndindex(self.shape): out[i] = Sc(_r(self[i]).re)
        return out.view(SymArray)
    def __array_function__(self, func, types, args, kwargs):
        if func in (np.fft.fftn, np.fft.ifftn):
            return _fftn(args[0], kwargs.get("axes"), inverse=(func is np.fft.ifftn))
        if func is np.isrealobj:
            return getattr(args[0], "_isreal", True)
        return super().__array_function__(func, types, args, kwargs)

import math
def _dft_matrix(n, inverse):
    # exact for n in 1,2,4 ; float-rational otherwise
    M = np.empty((n, n), dtype=object)
    for j in range(n):
        for k in range(n):
            ang = (j*k) % n
            if (4*ang) % n == 0:
                q = (4*ang)//n % 4
                c, s = [(1,0),(0,1),(-1,0),(0,-1)][q]
                c, s = float(c), float(s)
            else:
                c, s = math.cos(2*math.pi*ang/n), math.sin(2*math.pi*ang/n)
            w = _r(complex(c, s if inverse else -s))
            M[j,k] = w / n if inverse else w
    return M

def _fftn(a, axes, inverse):
    a = np.asarray(a, dtype=object)
    if axes is None: axes = range(a.ndim)
    for ax in axes:
        n = a.shape[ax]
        M = _dft_matrix(n, inverse)
        a = np.moveaxis(np.tensordot(M, a, axes=([1],[ax])), 0, ax)
    out = a.view(SymArray); out._isreal = False
    return out

def sym(shape, name="x"):
    out = np.empty(shape, dtype=object)
    for i in np.ndindex(*shape): out[i] = Sc(z3.Real(f"{name}_{'_'.join(map(str,i))}"))
    return out.view(SymArray)

class _NS:
    def __init__(self, base, **over):
        self._base = base; self._over = over
    def __getattr__(self, k):
        if k in self._over: return self._over[k]
        return getattr(self._base, k)

def make_np_proxy():
    fft = _NS(np.fft,
              fftn=lambda a, axes=None, **k: _fftn(a, axes, False),
              ifftn=lambda a, axes=None, **k: _fftn(a, axes, True))
    def isrealobj(a):
        return all(z3.is_true(z3.simplify(_r(v).im == 0)) for v in np.asarray(a, dtype=object).flat)
    return _NS(np, fft=fft, isrealobj=isrealobj)
