import numpy as np
from quantem.diffractive_imaging.ptycho_utils import SimpleBatcher
from quantem.core.utils.utils import subdivide_batches, generate_batches

def part(n: int, bs: int, p: int, grid: bool, shuffle: bool) -> bool:
    """
    pre: 1 <= n <= 9 and 1 <= bs <= 11 and 0 <= p <= 19
    post: __return__ == True
    """
    b = SimpleBatcher(n, bs, shuffle=shuffle, rng=0, val_ratio=p / 20, val_mode="grid" if grid else "random")
    batches = [x.tolist() for x in b]
    flat = sorted(i for x in batches for i in x)
    tr = sorted(b.train_indices.tolist()); va = sorted(b.val_indices.tolist())
    vb = [x.tolist() for x in b.iter_val()]
    return (flat == tr and len(batches) == len(b) and not (set(tr) & set(va))
            and sorted(tr + va) == list(range(n)) and len(vb) == b.val_len()
            and sorted(i for x in vb for i in x) == va and all(1 <= len(x) <= bs for x in batches))

def sub(n: int, mb: int) -> bool:
    """
    pre: 1 <= n <= 40 and 1 <= mb <= 45
    post: __return__ == True
    """
    s = subdivide_batches(n, max_batch=mb)
    g = list(generate_batches(n, max_batch=mb))
    return sum(s) == n and max(s) <= mb and min(s) >= 1 and g[0][0] == 0 and g[-1][1] == n and all(g[i][1] == g[i + 1][0] for i in range(len(g) - 1))
