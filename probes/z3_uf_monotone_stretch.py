import z3, time
R = z3.RealSort()
log = z3.Function("log", R, R); asinh = z3.Function("asinh", R, R); sinh = z3.Function("sinh", R, R)
def clip(x): return z3.If(x < 0, 0, z3.If(x > 1, 1, x))
vmin, vmax, x1, x2, a = z3.Reals("vmin vmax x1 x2 a")
def interval(x): return clip((x - vmin) / (vmax - vmin))
def logst(v): return log(a * clip(v) + 1) / log(a + 1)
def asinhst(v): return asinh((2 * clip(v) - 1) / a) / (asinh(1 / a) * 2) + z3.RealVal(1) / 2
terms = []
def mono(f, ts):  # instantiate strict monotonicity on all pairs
    return [z3.Implies(u < v, f(u) < f(v)) for u in ts for v in ts if not u.eq(v)] + [z3.Implies(u == v, f(u) == f(v)) for u in ts for v in ts if not u.eq(v)]
for name, st, f, pts, extra in [
    ("log", logst, log, lambda y1, y2: [a * y1 + 1, a * y2 + 1, a + 1, z3.RealVal(1)], [log(1) == 0]),
    ("asinh", asinhst, asinh, lambda y1, y2: [(2 * y1 - 1) / a, (2 * y2 - 1) / a, 1 / a, -1 / a, z3.RealVal(0)], [asinh(0) == 0, asinh(-1 / a) == -asinh(1 / a)]),
]:
    y1, y2 = interval(x1), interval(x2)
    n1, n2 = st(y1), st(y2)
    base = [vmin < vmax, a > 0, x1 <= x2] + extra + mono(f, pts(clip(y1), clip(y2)))
    for goal_name, goal in [("range", z3.And(n1 >= 0, n1 <= 1)), ("monotone", n1 <= n2),
                            ("limits", z3.And(z3.substitute(n1, (x1, vmin)) == 0, z3.substitute(n1, (x1, vmax)) == 1))]:
        s = z3.SolverFor("QF_UFNRA"); s.set("timeout", 60000)
        b = base
        if goal_name == "limits":
            yl, yh = interval(vmin), interval(vmax)
            b = [vmin < vmax, a > 0] + extra + mono(f, pts(clip(yl), clip(yh)))
            goal = z3.And(st(yl) == 0, st(yh) == 1)
        s.add(b); s.add(z3.Not(goal))
        t = time.time(); print(name, goal_name, s.check(), round(time.time() - t, 2))
