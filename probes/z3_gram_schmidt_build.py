import z3, time, itertools, subprocess, sys
def build(npx, nm):
    P = [[(z3.Real(f"r{i}_{p}"), z3.Real(f"i{i}_{p}")) for p in range(npx)] for i in range(nm)]
    cons=[]
    def cmul(a,b): return (a[0]*b[0]-a[1]*b[1], a[0]*b[1]+a[1]*b[0])
    def conj(a): return (a[0],-a[1])
    def inner(u,v):
        re=z3.RealVal(0); im=z3.RealVal(0)
        for a,b in zip(u,v):
            m=cmul(conj(a),b); re=re+m[0]; im=im+m[1]
        return (re,im)
    def sqrt(x,name):
        r=z3.Real(name); cons.append(r>=0); cons.append(r*r==x); return r
    orig=[sqrt(sum((a[0]*a[0]+a[1]*a[1] for a in P[i]), z3.RealVal(0)), f"on{i}") for i in range(nm)]
    O=[]
    for i in range(nm):
        pi=list(P[i])
        for j in range(len(O)):
            ip=inner(O[j],pi)
            pi=[(a[0]-cmul(ip,o)[0], a[1]-cmul(ip,o)[1]) for a,o in zip(pi,O[j])]
        n=sqrt(sum((a[0]*a[0]+a[1]*a[1] for a in pi), z3.RealVal(0)), f"n{i}")
        cons.append(n>0)
        O.append([(a[0]/n,a[1]/n) for a in pi])
    O=[[(a[0]*orig[i],a[1]*orig[i]) for a in O[i]] for i in range(nm)]
    s=z3.Solver()
    s.add(cons)
    viol=[]
    for i,j in itertools.combinations(range(nm),2):
        ip=inner(O[i],O[j]); viol += [ip[0]!=0, ip[1]!=0]
    s.add(z3.Or(viol))
    return s
