import numpy as np, warnings
warnings.simplefilter("ignore")
from quantem.core import config
try:
    with config.set({"dtype_real": "float64"}):
        pass
    print("ctx ok", config.get("dtype_real"))
except Exception as e:
    print("C19 ctx:", type(e).__name__, e)
from quantem.core.datastructures.vector import Vector
v1 = Vector.from_shape((2,), num_fields=2); v2 = Vector.from_shape((3,), num_fields=1)
v1.metadata["k"] = 1
print("C11 shared metadata:", v2.metadata)
v = Vector.from_data([np.ones((1,2)), np.zeros((2,2)), np.ones((3,2))])
try:
    print("C11 1d slice:", v[0:2].shape)
except Exception as e:
    print("C11 1d slice:", type(e).__name__, e)
v3 = Vector.from_shape((2,2,2), num_fields=1)
for i in np.ndindex(2,2,2): v3[i] = np.full((1,1), i[0]*4+i[1]*2+i[2], dtype=float)
try:
    s = v3[0:1, 1, :]
    print("C11 3d slice:", s.shape, s._data)
except Exception as e:
    print("C11 3d slice:", type(e).__name__, e)
from quantem.imaging.drift import DriftInterpolator
for shape in [(4,4),(3,5)]:
    di = DriftInterpolator(shape, (8,8), np.array([0.0,1.0]), np.array([1.0,0.0]), 0.0, 0.5)
    rows, cols = shape
    v_slow = np.linspace(-(rows-1)/2,(rows-1)/2,rows)
    out = {}
    for nk in (1,2,3,4):
        u_fast = np.linspace(-(cols-1)/2,(cols-1)/2,nk)
        xa = 3.5 + u_fast[None,:]*0.0 + v_slow[:,None]*1.0
        ya = 3.5 + u_fast[None,:]*1.0 + v_slow[:,None]*0.0
        kn = np.stack([xa,ya],0)
        out[nk] = di.transform_coordinates(kn)
    for nk in (1,3,4):
        print("C15", shape, nk, "max diff vs 2 knots:", max(np.abs(out[nk][0]-out[2][0]).max(), np.abs(out[nk][1]-out[2][1]).max()))
# scan dir 90 deg
for shape in [(3,5)]:
    th = np.deg2rad(90.0)
    sf = np.array([np.sin(-th), np.cos(-th)]); ss = np.array([np.cos(-th), -np.sin(-th)])
    di = DriftInterpolator(shape, (8,8), sf, ss, 0.0, 0.5)
    rows, cols = shape
    v_slow = np.linspace(-(rows-1)/2,(rows-1)/2,rows)
    out={}
    for nk in (1,2):
        u_fast = np.linspace(-(cols-1)/2,(cols-1)/2,nk)
        xa = 3.5 + u_fast[None,:]*sf[0] + v_slow[:,None]*ss[0]
        ya = 3.5 + u_fast[None,:]*sf[1] + v_slow[:,None]*ss[1]
        out[nk] = di.transform_coordinates(np.stack([xa,ya],0))
    print("C15 90deg (3,5) diff:", np.abs(out[1][0]-out[2][0]).max(), np.abs(out[1][1]-out[2][1]).max())
