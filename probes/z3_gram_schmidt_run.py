import z3, time
from z3_gram_schmidt_build import build
for npx,nm in [(2,2),(3,2),(2,3),(4,2)]:
    s0=build(npx,nm)
    s=z3.SolverFor("QF_NRA"); s.set("timeout",120000); s.add(s0.assertions())
    t=time.time(); print(npx,nm,s.check(),round(time.time()-t,1), flush=True)
