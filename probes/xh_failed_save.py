import numpy as np
from unittest import mock
import quantem.core.io.serialize as ser
from quantem.core.io.serialize import AutoSerialize
from memfs import FS, install, Fault

class Obj(AutoSerialize):
    pass

def _obj(tag: int):
    o = Obj(); o.a = tag; o.arr = np.arange(3); o.z = "s"; o.d = {"k": [tag, "x"]}
    return o

def failed_save(k: int, zipstore: bool, overwrite: bool, pre: int, tag: int) -> bool:
    """
    pre: 1 <= k <= 40 and 0 <= pre <= 1 and zipstore
    post: __return__ == True
    """
    fs = FS()
    path = "/work/o.zip" if zipstore else "/work/o"
    with mock.patch.multiple(ser, **install(fs, ser)):
        if pre == 1:
            _obj(7).save(path, mode="w")
        before = dict(fs.files)
        fs.n = 0; fs.k = k
        try:
            _obj(tag).save(path, mode="o" if overwrite else "w")
            raised = False
        except Fault:
            raised = True
        except FileExistsError:
            fs.k = -1
            return len(fs.files) == len(before) and all(p in fs.files and fs.files[p] is c for p, c in before.items())
        fs.k = -1
        if not raised:
            return True                        # k beyond the number of operations
        # post-state: absent, unreadable, or a complete object
        if not fs.exists(path):
            return True
        try:
            o2 = ser.load(path)
        except Exception:
            return True
        names = set(vars(o2))
        return names == {"a", "arr", "z", "d"} and o2.a in (7, tag)
