"""In-memory stand-in for zarr.Group / zarr.Array (I/O stub for symbolic execution)."""
import numpy as np

def _jsonify(v):
    # model of the JSON round trip zarr applies to attributes
    if isinstance(v, (list, tuple)):
        return [_jsonify(x) for x in v]
    if isinstance(v, dict):
        return {str(k): _jsonify(x) for k, x in v.items()}
    return v

class MemAttrs:
    def __init__(self):
        self._d = {}
    def __setitem__(self, k, v):
        self._d[k] = _jsonify(v)
    def __getitem__(self, k):
        return self._d[k]
    def __contains__(self, k):
        return k in self._d
    def __iter__(self):
        return iter(list(self._d))
    def get(self, k, default=None):
        return self._d.get(k, default)
    def items(self):
        return list(self._d.items())
    def keys(self):
        return list(self._d.keys())

class MemArray:
    def __init__(self, shape, dtype):
        self.attrs = MemAttrs()
        self._a = np.zeros(shape, dtype=dtype)
    @property
    def shape(self): return self._a.shape
    @property
    def ndim(self): return self._a.ndim
    @property
    def dtype(self): return self._a.dtype
    def __setitem__(self, k, v): self._a[k] = v
    def __getitem__(self, k): return self._a[k].copy() if isinstance(self._a[k], np.ndarray) else self._a[k]

class MemGroup:
    def __init__(self, path=""):
        self.attrs = MemAttrs()
        self._groups = {}
        self._arrays = {}
        self.path = path
    def require_group(self, name):
        if name in self._arrays:
            raise ValueError("array exists")
        if name not in self._groups:
            self._groups[name] = MemGroup(self.path + "/" + name)
        return self._groups[name]
    def create_array(self, name, shape, dtype, compressors=None):
        if name in self._groups or name in self._arrays:
            raise ValueError("exists")
        a = MemArray(shape, dtype)
        self._arrays[name] = a
        return a
    def array_keys(self): return list(self._arrays)
    def group_keys(self): return list(self._groups)
    def __getitem__(self, k):
        if k in self._groups: return self._groups[k]
        return self._arrays[k]
    def __contains__(self, k):
        return k in self._groups or k in self._arrays
