"""In-memory file system + zarr-on-disk layout model with a fault counter (probe)."""
import numpy as np, posixpath, copy

class Fault(OSError):
    pass

class FS:
    def __init__(self, k=-1):
        self.files = {}      # abs path -> content
        self.dirs = set(["/", "/tmp", "/work"])
        self.n = 0; self.k = k; self._tmp = 0
    def tick(self):
        self.n += 1
        if self.n == self.k:
            raise Fault(f"injected fault at op {self.n}")
    # --- os / shutil / tempfile surface used by serialize.py
    def exists(self, p): return p in self.files or p in self.dirs
    def isdir(self, p): return p in self.dirs
    def remove(self, p): self.tick(); del self.files[p]
    def rmtree(self, p):
        self.tick()
        for f in [f for f in self.files if f.startswith(p + "/")]: del self.files[f]
        for d in [d for d in self.dirs if d == p or d.startswith(p + "/")]: self.dirs.discard(d)
    def makedirs(self, p, exist_ok=False):
        if p in self.dirs: return
        self.tick(); 
        parts = p.strip("/").split("/")
        for i in range(1, len(parts) + 1): self.dirs.add("/" + "/".join(parts[:i]))
    def write(self, p, content):
        self.tick(); self.makedirs_quiet(posixpath.dirname(p)); self.files[p] = content
    def makedirs_quiet(self, p):
        parts = p.strip("/").split("/")
        for i in range(1, len(parts) + 1): self.dirs.add("/" + "/".join(parts[:i]))
    def walk(self, top):
        ds = sorted(d for d in self.dirs if d == top or d.startswith(top + "/"))
        for d in ds:
            yield d, [], sorted(posixpath.basename(f) for f in self.files if posixpath.dirname(f) == d)
    def mkdtemp(self):
        self._tmp += 1; p = f"/tmp/t{self._tmp}"; self.makedirs_quiet(p); return p

class _TmpDir:
    def __init__(self, fs): self.fs = fs; self.name = fs.mkdtemp()
    def __enter__(self): return self.name
    def __exit__(self, *a):
        fs = self.fs
        for f in [f for f in fs.files if f.startswith(self.name + "/")]: del fs.files[f]
        for d in [d for d in fs.dirs if d == self.name or d.startswith(self.name + "/")]: fs.dirs.discard(d)
        return False

def _jsonify(v):
    if isinstance(v, (list, tuple)): return [_jsonify(x) for x in v]
    if isinstance(v, dict): return {str(k): _jsonify(x) for k, x in v.items()}
    return v

class Attrs:
    def __init__(self, fs, path): self.fs = fs; self.path = path
    def _d(self): return self.fs.files[self.path]["attrs"]
    def __setitem__(self, k, v):
        meta = copy.copy(self.fs.files[self.path]); meta["attrs"] = dict(meta["attrs"]); meta["attrs"][k] = _jsonify(v)
        self.fs.write(self.path, meta)
    def __getitem__(self, k): return self._d()[k]
    def __contains__(self, k): return k in self._d()
    def __iter__(self): return iter(list(self._d()))
    def get(self, k, default=None): return self._d().get(k, default)
    def items(self): return list(self._d().items())
    def keys(self): return list(self._d().keys())

class Arr:
    def __init__(self, fs, d): self.fs = fs; self.d = d; self.attrs = Attrs(fs, d + "/zarr.json")
    def _m(self): return self.fs.files[self.d + "/zarr.json"]
    @property
    def shape(self): return self._m()["shape"]
    @property
    def ndim(self): return len(self.shape)
    @property
    def dtype(self): return self._m()["dtype"]
    def __setitem__(self, k, v):
        a = np.zeros(self.shape, dtype=self.dtype); a[k] = v; self.fs.write(self.d + "/c", a)
    def __getitem__(self, k):
        a = self.fs.files.get(self.d + "/c")
        if a is None: a = np.zeros(self.shape, dtype=self.dtype)   # zarr fill value when chunk missing
        return a[k]

class Grp:
    def __init__(self, fs, d): self.fs = fs; self.d = d; self.attrs = Attrs(fs, d + "/zarr.json"); self.path = d
    def _kids(self, kind):
        out = []
        for f, m in self.fs.files.items():
            if f.endswith("/zarr.json") and posixpath.dirname(posixpath.dirname(f)) == self.d and m["kind"] == kind:
                out.append(posixpath.basename(posixpath.dirname(f)))
        return out
    def group_keys(self): return self._kids("group")
    def array_keys(self): return self._kids("array")
    def require_group(self, name):
        p = self.d + "/" + name + "/zarr.json"
        if p not in self.fs.files: self.fs.write(p, {"kind": "group", "attrs": {}})
        return Grp(self.fs, self.d + "/" + name)
    def create_array(self, name, shape, dtype, compressors=None):
        self.fs.write(self.d + "/" + name + "/zarr.json", {"kind": "array", "attrs": {}, "shape": tuple(shape), "dtype": np.dtype(dtype)})
        return Arr(self.fs, self.d + "/" + name)
    def __getitem__(self, k):
        m = self.fs.files[self.d + "/" + k + "/zarr.json"]
        return Grp(self.fs, self.d + "/" + k) if m["kind"] == "group" else Arr(self.fs, self.d + "/" + k)
    def __contains__(self, k): return (self.d + "/" + k + "/zarr.json") in self.fs.files

class _Zip:
    def __init__(self, fs, path, mode="r"):
        self.fs = fs; self.path = path; self.mode = mode
        if mode == "w": fs.write(path, {"kind": "zip", "members": {}})
    def __enter__(self): return self
    def __exit__(self, *a): return False
    def write(self, full, arcname):
        z = copy.copy(self.fs.files[self.path]); z["members"] = dict(z["members"]); z["members"][arcname] = self.fs.files[full]
        self.fs.write(self.path, z)
    def extractall(self, dest):
        z = self.fs.files[self.path]
        if not isinstance(z, dict) or z.get("kind") != "zip": raise OSError("bad zip")
        for arc, c in z["members"].items(): self.fs.files[dest + "/" + arc] = c; self.fs.makedirs_quiet(posixpath.dirname(dest + "/" + arc))

def install(fs, mod):
    """returns dict of replacement globals for quantem.core.io.serialize"""
    import types
    os_path = types.SimpleNamespace(exists=fs.exists, isdir=fs.isdir, join=posixpath.join, relpath=posixpath.relpath, splitext=posixpath.splitext)
    os_ = types.SimpleNamespace(path=os_path, remove=fs.remove, walk=fs.walk, makedirs=fs.makedirs)
    shutil_ = types.SimpleNamespace(rmtree=fs.rmtree)
    tempfile_ = types.SimpleNamespace(TemporaryDirectory=lambda: _TmpDir(fs))
    def group(store, overwrite=False):
        d = store
        if overwrite:
            for f in [f for f in fs.files if f.startswith(d + "/")]: del fs.files[f]
            fs.write(d + "/zarr.json", {"kind": "group", "attrs": {}})
        elif (d + "/zarr.json") not in fs.files:
            raise FileNotFoundError(d)
        return Grp(fs, d)
    zarr_ = types.SimpleNamespace(group=group, Group=Grp, Array=Arr)
    return dict(os=os_, shutil=shutil_, tempfile=tempfile_, zarr=zarr_, LocalStore=lambda p: str(p), ZipFile=lambda p, mode="r": _Zip(fs, str(p), mode))
