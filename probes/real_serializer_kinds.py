import numpy as np, tempfile, os, torch, traceback
from pathlib import Path
from quantem.core.io.serialize import AutoSerialize, load
class A(AutoSerialize):
    pass
d = tempfile.mkdtemp()
cases = {
 "npc": np.complex64(1+2j), "pyc": 1+2j, "npb": np.bool_(True), "npi8": np.int8(-3), "npu64": np.uint64(2**63+5),
 "lnum_np": [np.float32(1.5), 2], "lset": [{1,2}], "dset": {"a": {1}}, "lemp": [[], ()], "tnest": ((1,2),(3,4)),
 "lstr": ["a","b"], "lnone": [None, None], "d_int": {"1": 2}, "lbig": [2**62, 1], "larr": [np.arange(3), np.zeros((0,))],
 "arr_bool": np.array([True, False]), "arr_c": np.array([1+2j]), "arr_str": np.array(["ab","c"]), "arr_0d_int": np.array(7),
 "t": torch.arange(3.0, requires_grad=False), "tg": torch.ones(2, requires_grad=True), "tc": torch.tensor([1+2j]), "t0": torch.tensor(3),
 "lt": [torch.ones(1)], "dt": {"x": torch.ones(1)}, "inf": float("inf"), "ninf": [float("nan"), 1.0], "i0": 0, "sempty": "", "bigneg": -2**70,
 "d_nested": {"a": {"b": {"c": [1, "x", None]}}}, "ltuple_mixed": [(1, "a"), [2.5, None]], "bytes": b"abc", "frozen": frozenset({1}),
 "rng": np.random.default_rng(3),
}
for k, v in cases.items():
    a = A(); setattr(a, k, v)
    p = os.path.join(d, k + ".zip")
    try:
        a.save(p)
        b = load(p)
        w = getattr(b, k, "<MISSING>")
        print(f"{k:12s} {v!r:45.45s} -> {w!r:45.45s} {type(w).__name__} {getattr(w,'dtype','')} {getattr(w,'requires_grad','')}")
    except Exception as e:
        print(f"{k:12s} EXC {type(e).__name__}: {str(e)[:100]}")
