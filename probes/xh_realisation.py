import numpy as np
A = np.arange(10)
def f(i: int, j: int) -> int:
    """
    pre: 0 <= i < 5 and 1 <= j < 4
    post: __return__ >= 0
    """
    v = A[i::j]          # numpy C boundary: realizes i, j
    return int(v[0])
