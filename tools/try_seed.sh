#!/bin/bash
# tools/try_seed.sh <PROPERTY> <seed dir with patch.diff + demo.py> [tier]
# applies the seeded change to /repo, confirms the demo fails, runs the check, and always restores /repo
PID=$1; DIR=$2; TIER=${3:-quick}
cd /verif
git -C /repo diff --quiet || { echo "repo not clean"; exit 9; }
git -C /repo apply --check "$DIR/patch.diff" || { echo "PATCH DOES NOT APPLY"; exit 8; }
git -C /repo apply "$DIR/patch.diff"
trap 'git -C /repo checkout -- . ' EXIT
( cd /repo && PYTHONPATH=/repo/src timeout 600 /venv/bin/python "$DIR/demo.py" >/tmp/seed_demo.log 2>&1 ); echo "demo_with_patch_exit=$?"
timeout 3000 ./run $PID --tier $TIER > /tmp/seed_check_$PID.log 2>&1; rc=$?
echo "check_exit=$rc"
grep -c "^VIOLATION" /tmp/seed_check_$PID.log | sed 's/^/violation_lines=/'
grep "^VIOLATION\|counterexample" /tmp/seed_check_$PID.log | head -4 | cut -c1-300
tail -1 /tmp/seed_check_$PID.log | cut -c1-250
