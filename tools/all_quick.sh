#!/bin/bash
# tools/all_quick.sh [seed] [tier]: every claimed check once on the unchanged tree under VERIF_SEED=<seed>; evidence and
# replays of these runs go to a scratch directory (removed afterwards) so that the committed evidence is not touched.
# Every line must say exit=0.
S=${1:-0}; TIER=${2:-quick}
cd "$(dirname "$0")/.."
OUT=$(mktemp -d /tmp/allquick.XXXXXX)
trap 'rm -rf $OUT' EXIT
for id in $(python3 -c "import json; print(' '.join(c['property_id'] for c in json.load(open('MANIFEST.json'))['checks']))"); do
  t0=$(date +%s)
  VERIF_SEED=$S VERIF_EVIDENCE_DIR=$OUT/evidence VERIF_REPLAY_DIR=$OUT/replays ./run $id --tier $TIER > $OUT/log 2>&1; rc=$?
  echo "$TIER seed=$S $id exit=$rc wall=$(( $(date +%s)-t0 ))s :: $(grep "^\[$id\]" $OUT/log | tail -1)"
  [ $rc -ne 0 ] && grep -E "VIOLATION|inconclusive:|harness error" $OUT/log | head -5 | cut -c1-300
done
