"""debug helper: decide the cases of a engine-S check whose name contains a pattern, one by one"""
import importlib
import sys
import time

sys.path.insert(0, "/verif")
from vf.common import Check  # noqa: E402
from vf.sym.claims import decide  # noqa: E402

pid, pat = sys.argv[1], sys.argv[2]
mod = importlib.import_module(f"vf.checks.{pid.lower()}")
for name, claim, opts in mod.cases("quick"):
    if pat in name:
        c = Check(pid, "quick", "")
        t = time.time()
        decide(c, name, claim, timeout_s=60, validate=1, **opts)
        print(name, round(time.time() - t, 1),
              [(o["name"].split(":")[-1], o["status"], o["detail"][-600:]) for o in c.obligations], c.errors[:1])
