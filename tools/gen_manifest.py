#!/usr/bin/env python3
"""Regenerate MANIFEST.json from the table below (kept in one place so it stays valid)."""
import json
from pathlib import Path

ROOT = Path(__file__).resolve().parent.parent

X = "engine X: CrossHair (symbolic execution of the real Python code, z3)"
S = "engine S: symnum term-valued execution of the real NumPy/torch code + z3"
Z = "engine Z: AST -> SMT-LIB integer kernels (z3)"

CLAIMED = {
    "C01": dict(
        engine="X",
        technique="CrossHair symbolic execution of the real save()/load() against an in-memory zarr/file-system model; structural-equality post-condition; counterexamples replayed on the real zip/dir stores",
        text=("bounded model checking: object graphs of depth <= 3 are decoded from symbolic kind selectors and carry symbolic "
              "int/float/str/bool payloads; the real serializer code is executed path by path by CrossHair/z3 and "
              "'Confirmed over all paths' means load(save(o)) is structurally equal for every value inside the bound; "
              "values that must cross into NumPy/torch come from menus of representatives chosen by symbolic selectors"),
        note=("trusts CrossHair/z3 and the in-memory store model (vf/stubs/memfs.py), which is validated against the real "
              "zarr zip/directory stores on every run; store kind, compression level, path type and mode are exercised "
              "only by the concrete validation/replay runs; floats are reals until realised"),
        design_ref="DESIGN.md §5 C01"),
    "C03": dict(
        engine="X",
        technique="CrossHair symbolic execution of the real Dataset indexing / pad / crop / bin / fourier_resample / copy code with selector-chosen index expressions and operation histories; NumPy indexing + calibration model as oracle",
        text=("bounded model checking: for datasets of 1-5 dimensions every index tuple built from a 10-entry per-axis menu "
              "(ints, stepped/negative slices, lists), any tuple length and Ellipsis position is explored; operation "
              "histories of <= 2 (quick) / 3 operations with symbolic kinds, axes, arguments and in-place flags are checked "
              "for calibration coherence, class/dimension agreement, untouched sources and in-place == copying"),
        note=("trusts CrossHair/z3 and NumPy; arrays are concrete (the quantified part is the index/operation structure); "
              "slice start/stop values outside the menu, boolean/None indices and >1 list index are outside; quick tier "
              "pins some axes' entries by VERIF_SEED for 4-D/5-D"),
        design_ref="DESIGN.md §5 C03"),
    "C04": dict(
        engine="S",
        technique="term-valued symbolic execution of the real DirectPtychography._preprocess/reconstruct on a symbolic bright-field stack (torch via __torch_function__); batch invariance, linearity, sub-mask recombination and the analytic parallax cases decided by z3 with a float tolerance",
        text=("bounded model checking by symbolic execution over all bright-field stack values (scan 4x4, masks of 3-5 pixels on a 4x4 "
              "detector): for each of the five kernels the corrected stack is the same for every batch size 1..num_bf and is additive "
              "and homogeneous in the stack; for ssb, prlx, icom the aperture-weighted reconstructions of two complementary sub-masks "
              "sum to the full-mask result; zero-aberration parallax equals the sum of mean-subtracted images over the aperture "
              "weight, and with defocus / astigmatism / rotation the same sum after translating image i by grad chi(k_i)/2pi "
              "(translation written independently as a Fourier phase ramp; the shift itself from central differences of the real "
              "aberration surface, not from the gradient routines the reconstruction calls)"),
        note=("probe-side quantities are the float32 values the real code computes (they do not depend on the stack), so equalities "
              "are asked with tolerance 2e-5 for stack values in [-1,1]; upsampling 2 only in the thorough tier, upsampling 3, "
              "larger scans, contrast-transfer sign flipping, noise and hyper-parameter optimisation are outside"),
        design_ref="DESIGN.md §5 C04"),
    "C06": dict(
        engine="S",
        engine_override="S+X",
        technique="term-valued symbolic execution of the real Dataset.bin/fourier_resample/pad/crop NumPy code (explicit DFT model), identities decided by z3 over all array contents and calibrations; replay on real NumPy; CrossHair over the real bin for integer dtypes (symbolic selectors, concrete extreme values)",
        text=("bounded model checking by symbolic execution: the repository's functions run unchanged on arrays whose "
              "elements are z3 real terms; block-sum/mean, sampling/origin updates, count/mean/centre/extent conservation, "
              "linearity, identity, up-then-down identity (under the no-Nyquist precondition) and pad-then-crop identity are "
              "each asked as 'exists input violating it?' and come back unsat for every enumerated shape/factor (incl. resampling factors whose "
              "product with the axis length is rounded); block sums / means of uint8, int8, uint16, int16, int32 and bool arrays with values at the "
              "extremes of the dtype equal the exact sums / means (CrossHair, all selector combinations)"),
        note=("real arithmetic instead of floating point; DFT lengths 1, 2, 4 exact, other lengths with float64 twiddles "
              "taken as exact rationals and a 1e-9 tolerance; the NumPy model is validated against real NumPy on every run"),
        design_ref="DESIGN.md §5 C06"),
    "C08": dict(
        engine="X",
        technique="CrossHair symbolic execution of the real save()/load() on an in-memory file system with a symbolic fault index; post-state assertion; replay with mock-injected faults on the real file system",
        text=("bounded model checking of failed saves: the index k of the write operation that raises is a solver variable "
              "(0..90), store/mode/pre-existing target/object shape/unserialisable attribute are enumerated per job; "
              "'Confirmed over all paths' = for every k the target is absent, unreadable or a complete earlier object, "
              "write-once leaves the target untouched and no other path changes"),
        note=("trusts CrossHair/z3 and the file-system/zarr layout model (vf/stubs/memfs.py: atomic single calls, zarr "
              "attribute caching, zip central directory written on close); faults are exceptions at write/assembly calls, "
              "not power loss; counterexamples are confirmed on the real file system before being reported"),
        design_ref="DESIGN.md §5 C08"),
    "C09": dict(
        engine="X",
        engine_override="X+S",
        technique="CrossHair symbolic execution of the real SimpleBatcher / subdivide_batches / generate_batches with symbolic sizes, ratios and a solver-chosen permutation stub, and of the real reconstruct / reset_recon / RNGMixin control flow with a seeded-generator stand-in (schedule determinism); term-valued symbolic execution of the real error_estimate (z3) for batch-mean == full-batch loss",
        text=("bounded model checking of the scheduling structure: for every n <= 7 (quick) / 9, batch size, validation ratio on "
              "the p/20 grid, split mode, shuffle flag and permutation choice the yielded batches are an exact partition of the "
              "training set, train/val are disjoint and covering and the reported counts equal the numbers yielded; "
              "subdivide_batches/generate_batches for all n <= 40, max_batch <= 45 with unrealised symbolic ints; for symbolic predictions, targets, "
              "detector mask and mean intensity the mean of the per-batch losses equals the full-batch loss for every divisor of the "
              "pattern count and all four l1/l2 x amplitude/intensity losses and the Poisson loss (log uninterpreted, constant mean intensity); the real control flow of Ptychography.reconstruct / reset_recon / "
              "RNGMixin / SimpleBatcher (numerical work of a step cut out) gives, after 0-2 earlier iterations, with reset=True the same loss "
              "history and batch sequence as a fresh object from the same seed (n <= 5, seeds 0..2, three validation ratios, both split modes)"),
        note=("trusts CrossHair/z3; the generator is a stub constrained by Generator.permutation's contract, in the determinism jobs a "
              "stand-in whose k-th draw is a fixed function of (seed, k); bit-identical losses additionally need deterministic numerical "
              "kernels (stated, not checked); gradient equality follows from the decided loss identity by "
              "linearity of differentiation (stated, not queried)"),
        design_ref="DESIGN.md §5 C09"),
    "C10": dict(
        engine="S",
        technique="term-valued symbolic execution of the real torch constraint code on symbolic raw parameters (angle() as tied angle atoms, exp(i theta) as unit vectors, clamp as ite, argsort by forking); admissibility claims decided by z3 (QF_NRA)",
        text=("bounded model checking by symbolic execution over all raw parameter values: complex objects have |obj| <= 1 (also with "
              "a field-of-view mask in [0,1]), pure-phase objects |obj| = 1, potential objects are non-negative and real, "
              "identical_slices ties all slices, re-applying the constraint keeps the amplitude; Gram-Schmidt output modes are "
              "pairwise orthogonal and in descending intensity order; _apply_weights gives total diffraction intensity == mean "
              "intensity and mode intensities proportional to the requested weights"),
        note=("real arithmetic; grids <= 2x2, <= 3 slices; orthogonality is decided for 2 real-valued modes x 2 pixels only "
              "(nlsat does not finish for complex or more modes) and the 'same multiset of intensities' clause returns unknown "
              "and is not claimed; smoothing filters, tomography object models are outside"),
        design_ref="DESIGN.md §5 C10"),
    "C11": dict(
        engine="X",
        technique="CrossHair symbolic execution of the real Vector API with selector-chosen operations/index expressions; list-of-rows reference model and structural invariants as post-conditions",
        text=("bounded model checking: every single operation with all of its arguments (index expression per axis from a "
              "menu of representatives of every distinct selection) on 8 shapes with 1-3 fixed dimensions, and histories of "
              "three operations with symbolic operation kinds, are explored path by path; after each operation the real "
              "Vector must agree with a reference model and satisfy the cell/field/unit invariants"),
        note=("trusts CrossHair/z3 and NumPy inside a cell; cell contents are concrete distinct numbers; histories longer "
              "than 3, >3 fixed dimensions and size-1 list indices in assignments are outside"),
        design_ref="DESIGN.md §5 C11"),
    "C12": dict(
        engine="S",
        technique="term-valued symbolic execution of the real torch aberration code (SymTensor via __torch_function__), Chebyshev/phasor expansion of cos/sin of integer angle combinations, symbolic differentiation of the executed surface, identities decided by z3 (QF_NRA)",
        text=("bounded model checking by symbolic execution for all real alpha >= 0, azimuth, wavelength > 0 and all 25 "
              "coefficient values (orders 1-5, separately and together): polar surface == cartesian-basis expansion, "
              "cartesian->polar->cartesian and merge keep the surface, merge is additive in cartesian deltas, the polar and "
              "cartesian analytic gradients equal wavelength x the derivative of the executed surface term, aliases map to "
              "their symbols with defocus -> -C10; every query unsat"),
        note=("real arithmetic (float32 storage rounding outside); float literals within one ulp of a small rational denote "
              "that rational; atan2 is a fresh angle atom with r cos = x, r sin = y; the least-squares fit "
              "(LAPACK/SVD), validators.validate_aberration_coefficients and the probe_params setter are outside"),
        design_ref="DESIGN.md §5 C12"),
    "C13": dict(
        engine="S",
        technique="term-valued symbolic execution of the real NumPy and torch cross-correlation estimators on a structured spectrum family; argmax / floor / round / mod by solver-checked concretisation; returned-shift, antisymmetry and zero-shift claims decided by z3",
        text=("bounded model checking by symbolic execution on the family 'delta image vs. reference with symbolic spectral magnitudes "
              "p_k in [0.1, 1] and a concrete integer shift': for image shapes 4x4, 4x2, 2x4, every listed integer shift in the cell "
              "(incl. beyond half the size and zero) and upsampling 1, 2, 3, 4, 8 (thorough: 7) both estimators return exactly the applied "
              "shift and negate it when the images are swapped, and registering the same arrays a second time returns it again; each argmax and each integer part taken by the code is shown to be "
              "the same for all admissible magnitudes before it is used concretely"),
        note=("restricted input family (Fourier-space inputs, linear-phase reference), exact DFT lengths 2 and 4 only; arbitrary image "
              "content, sub-pixel shifts / the 1/upsample accuracy clause, max_shift, other upsampling factors, and the NumPy estimator on "
              "4x4 with a non-zero shift at factors 7 and 8 (does not finish) are outside; real arithmetic"),
        design_ref="DESIGN.md §5 C13"),
    "C14": dict(
        engine="X",
        technique="CrossHair symbolic execution of the real save()/load() skip handling on the in-memory store model; reference-model post-condition; replay on the real stores",
        text=("bounded model checking: save-time and load-time skip names (universe of 9 names over 3 nesting levels) and a "
              "save-time type are chosen by symbolic selectors, payloads are symbolic; the loaded attribute tree is "
              "compared with a reference model, load-time skipping with save-time skipping, and recorded skips with "
              "repeated ones"),
        note=("trusts CrossHair/z3 and the in-memory store model; <= 1 (quick) / 2 (thorough) names per list; objects "
              "inside containers and load-time type skipping are outside, as the property states"),
        design_ref="DESIGN.md §5 C14"),
    "C15": dict(
        engine="S",
        technique="term-valued symbolic execution of the real NumPy knot-construction / transform_rows / bilinear-splat code on a symbolic scan direction (cos/sin atoms) and symbolic sample coordinates, and of the real align_translation + cross_correlation_shift on identical images with a symbolic power spectrum; geometry, unit-weight and fixed-point identities decided by z3",
        text=("bounded model checking by symbolic execution for every scan angle: pixel (r, c) maps to canvas centre + rotated "
              "offset for image shapes 3x3, 3x5, 4x2, 5x4, 1-4 knots and pad fractions 0/0.25/0.5 (hence identical coordinates for "
              "1, 2, 3, 4 knots); the scan vectors are a rotation; the bilinear splat weights of every sample sum to one so the "
              "weight map sums to the number of pixels; for 2 and 3 identical warped images with any power spectrum q_k in [0.01, 1] on a 4x4 "
              "canvas the real align_translation leaves every knot where it was (upsampling 1, 3, 8; thorough 1, 2, 3, 4, 7, 8)"),
        note=("real arithmetic; interp1d is replaced by the unique interpolating polynomial for n = order+1 knots, gaussian_filter "
              "by a sum-preserving operator, bincount by a total-preserving scatter-add; in the fixed-point claims np.fft.fft2 of the "
              "identical warped images is replaced by their common spectrum sqrt(q_k) (real, positive) and warp_image after the "
              "alignment is recorded only"),
        design_ref="DESIGN.md §5 C15"),
    "C16": dict(
        engine="S",
        technique="term-valued symbolic execution of the real NumPy/torch operator code with unit-modulus phasors expanded into (cos, sin) atoms and exact DFTs of length 1/2/4; energy, additivity, roll, inverse, adjoint, projection identities decided by z3 (QF_NRA)",
        text=("bounded model checking by symbolic execution for all complex array contents, shift vectors, slice thicknesses, "
              "object phases and measured amplitudes on ROIs 2x2, 4x2, 2x4: Fourier translation and Fresnel propagation preserve "
              "total intensity, translations add, integer translations are rolls, propagate-then-back is the identity, "
              "sum_patches is the adjoint of patch extraction (repeats, wrap-around), a pure-phase object conserves the probe "
              "intensity at the detector, and the single-mode Fourier projection yields exactly the measured magnitudes and is idempotent"),
        note=("real arithmetic; concrete-shift phase ramps are NumPy complex64, so roll equality is asked with tolerance 4e-6; "
              "multi-slice pure-phase conservation beyond 2 slices follows by composing decided per-step identities (stated, not "
              "queried); mixed-state projection branch and gradient_step are outside"),
        design_ref="DESIGN.md §5 C16"),
    "C17": dict(
        engine="S+X",
        technique="compositional solver-based checking of the real unwrapping code: _find_wrap (z3, mixed int/real), UnionFindPhase.union/_final_offsets executed on every forest with symbolic offsets (inductive step), _build_edges structure under CrossHair, bounded whole-algorithm symbolic runs with edge orders explored by forking",
        text=("bounded model checking by symbolic execution, compositional: (1) for all wrapped phases and wrap counts of a neighbour "
              "pair of a smooth field _find_wrap returns the difference of the wrap counts; (2) from any forest on <= 3 nodes (and "
              "150 seeded / all 125 forests on 4 nodes) with symbolic offsets satisfying 'potential - wrap count is constant per "
              "tree', one union step re-establishes the invariant and leaves other trees alone; (3) _build_edges returns exactly "
              "the 4-neighbour pairs inside the mask for every mask on grids up to 3x3, with and without wrap-around; (4) whole runs "
              "on 1x2 and 1x3 grids return the true phase up to one constant on every feasible edge order; (5) the masked-embedding wrapper "
              "unwrap_bf_overlap_phase_torch returns the true phase up to one constant on a 2-pixel overlap region of a 3-pixel detector grid"),
        note=("the step from (1)-(3) to arbitrary grids/masks is a stated pen-and-paper induction over the edge list, not a query; "
              "pi is math.pi as an exact rational on both sides; torch.angle of the overlap values is stubbed by the symbolic wrapped phases; "
              "the Poisson method and larger overlap regions are outside"),
        design_ref="DESIGN.md §5 C17"),
    "C18": dict(
        engine="S",
        technique="term-valued symbolic execution of the real COM code (torch via __torch_function__, NumPy via facade) on symbolic positive intensities/masks; z3 decides equality with the weighted-mean oracle, batch/path independence, immutability, integer shift == roll",
        text=("bounded model checking by symbolic execution: for every enumerated scan/detector shape and every batch size the "
              "origin model returns (sum I*row/sum I, sum I*col/sum I); the dataset model returns the same pair in the same "
              "order on the vectorised and the looped path, with and without a mask, and does not modify its input; constant "
              "fit returns the mean; shift_origin_to with integer origins equals the circular roll (all cell positions)"),
        note=("real arithmetic; grid_sample is a bilinear model evaluated at the concrete grid; plane/parabola fits "
              "(curve_fit/eigh), bicubic mode and non-integer origins are outside"),
        design_ref="DESIGN.md §5 C18"),
    "C19": dict(
        engine="X",
        technique="CrossHair symbolic execution of the real config functions (z3), reference-model post-conditions, counterexample replay",
        text=("bounded model checking: every history of <= 2 (quick) / <= 3 (thorough) operations over a 16-key menu with "
              "unbounded symbolic integer values is explored path by path by CrossHair; 'Confirmed over all paths' = the "
              "reference-model assertion holds for all values inside the bound"),
        note=("trusts CrossHair's models of int/str/dict and z3; no user yaml files, CUDA/MPS unavailable; histories "
              "beyond the bound and nested update_defaults with clashing '-'/'_' spellings are outside the claim"),
        design_ref="DESIGN.md §5 C19"),
    "C20": dict(
        engine="S",
        technique="term-valued symbolic execution of the real interval/stretch/CustomNormalization NumPy code; transcendental functions as uninterpreted functions with instantiated monotonicity/inverse laws; z3 decides range, monotonicity, limit and inverse claims",
        text=("bounded model checking by symbolic execution over all limits vmin < vmax, data values, stretch parameters: for each "
              "of 4 interval kinds x 4 stretch kinds the normalised values lie in [0,1], are monotone, map the limits to 0 and 1; "
              "each of the 6 stretch/inverse pairs composes to the identity on [0,1]; the real display functions _show_2d_array (12 configuration forms) "
              "and _show_2d_combined (5) on symbolic pixels: range, monotone, configured limits shown as 0 and 1; integer dtypes with manual and "
              "centred intervals and NaN/inf by symbolic selector through the real code (CrossHair); every query comes back unsat"),
        note=("real arithmetic; log/exp/sinh/asinh/x^p are uninterpreted with only their order/inverse laws (sound for unsat, "
              "sat answers are filtered by replay on real NumPy); np.quantile is a contract stub; NaN/inf handling is "
              "exercised concretely; degenerate intervals are outside"),
        design_ref="DESIGN.md §5 C20"),
}

NOT_APPLICABLE = {
    "C02": "the claim concerns the library's preprocessing of independently simulated data (curve_fit, rotation search, normalisation) and a strict-inequality statement about a neighbourhood of one numerical point; only the forward chain is encodable and that is already decided operator by operator by C16, so a reduced check would not decide this property (DESIGN.md §6)",

    "C05": "torch optimiser state, pickle streams and a floating-point optimisation trajectory cannot be encoded for a solver; nothing in the claim is a bounded symbolic statement (DESIGN.md §6)",
    "C07": "oracle is compiled scikit-image code, implementation is the C++ grid_sample kernel over float trigonometry; agreement of two float programs is not decidable by a real-arithmetic encoding (DESIGN.md §6)",
}
PENDING = "check not built yet in this round (planned, see DESIGN.md §5); not claimed until it runs"


def main():
    props = [json.loads(l)["id"] for l in (ROOT / "properties.jsonl").read_text().splitlines() if l.strip()]
    checks = []
    for pid in props:
        if pid not in CLAIMED:
            continue
        c = CLAIMED[pid]
        checks.append(dict(
            property_id=pid,
            quick_cmd=f"./run {pid} --tier quick",
            thorough_cmd=f"./run {pid} --tier thorough",
            evidence_file=f"/verif/evidence/{pid}.json",
            replay_cmd_template=f"./run {pid} --replay {{path}}",
            engine=c.get("engine_override", c["engine"]),
            level_claimed=dict(category="model_checking", text=c["text"], design_ref=c["design_ref"]),
            level_note=c["note"],
            technique=c["technique"],
        ))
    na = [dict(property_id=p, reason=NOT_APPLICABLE.get(p, PENDING)) for p in props if p not in CLAIMED]
    m = dict(
        version=1,
        setup_cmd="./setup.sh",
        hooks=dict(guard="QUANTEM_VERIF", enable="no source hooks: all substitution is done from outside by patching module globals",
                   baseline_off_cmd="cd /repo && /venv/bin/python -m pytest -ra -q -p no:cacheprovider --timeout=900 --continue-on-collection-errors",
                   source_commits=[], add_only=True),
        engines=[
            dict(name="X", path="vf/xh.py", serves_properties=[p for p, c in CLAIMED.items() if "X" in c["engine"]], kind_free_text=X),
            dict(name="S", path="vf/sym", serves_properties=[p for p, c in CLAIMED.items() if "S" in c["engine"]], kind_free_text=S),
            dict(name="Z", path="vf/ast2smt.py", serves_properties=[p for p, c in CLAIMED.items() if "Z" in c["engine"]], kind_free_text=Z),
        ],
        checks=checks,
        not_applicable=na,
        notes=("Solver-based checking of the real code. Exit codes: 0 held, 1 reproduced violation (VIOLATION line), "
               "2 inconclusive, 3 harness error. Known findings: known_findings.json."),
    )
    (ROOT / "MANIFEST.json").write_text(json.dumps(m, indent=1) + "\n")
    print("MANIFEST.json:", len(checks), "checks,", len(na), "not applicable")


if __name__ == "__main__":
    main()
