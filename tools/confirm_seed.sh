#!/bin/bash
# tools/confirm_seed.sh <seed dir>: in a scratch worktree of /repo HEAD confirm that the demo passes without the change,
# that the change applies, that the full test suite still passes with it and that the demo fails with it
DIR=$1
W=$(mktemp -d /tmp/confwt.XXXXXX); rmdir $W
git -C /repo worktree add -q --detach $W HEAD || exit 9
trap 'git -C /repo worktree remove --force $W >/dev/null 2>&1' EXIT
( cd $W && PYTHONPATH=$W/src timeout 900 /venv/bin/python "$DIR/demo.py" >/dev/null 2>&1 ); D0=$?
git -C $W apply "$DIR/patch.diff" || { echo "CONFIRM $DIR patch_does_not_apply"; exit 8; }
T=$( cd $W && PYTHONPATH=$W/src timeout 1800 /venv/bin/python -m pytest -q -p no:cacheprovider --timeout=900 tests 2>&1 | tail -1 )
( cd $W && PYTHONPATH=$W/src timeout 900 /venv/bin/python "$DIR/demo.py" >/dev/null 2>&1 ); D1=$?
echo "CONFIRM $DIR demo_without=$D0 demo_with=$D1 tests_with='$T'"
