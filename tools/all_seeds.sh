#!/bin/bash
# tools/all_seeds.sh [tier]: evaluates every seeded change under seeded/ (tools/seed_eval.sh, /repo untouched), 4 at a time
TIER=${1:-quick}
cd "$(dirname "$0")/.."
ls -d seeded/*/ | xargs -P 4 -I{} bash -c 'd={}; d=${d%/}; p=$(basename $d | cut -c1-3); tools/seed_eval.sh $p $PWD/$d '"$TIER"' | grep RESULT | cut -c1-420'
