#!/bin/bash
# tools/seed_eval.sh <PROPERTY> <seed dir> [tier]
# evaluates a seeded change WITHOUT touching /repo: the patch is applied to a scratch worktree and the check
# imports quantem from there (PYTHONPATH); evidence / replays of such runs go to a scratch directory
PID=$1; DIR=$2; TIER=${3:-quick}
W=$(mktemp -d /tmp/seedwt.XXXXXX); rmdir $W
git -C /repo worktree add -q --detach $W HEAD || exit 9
trap 'git -C /repo worktree remove --force $W >/dev/null 2>&1' EXIT
git -C $W apply "$DIR/patch.diff" || { echo "RESULT $PID $DIR patch_does_not_apply"; exit 8; }
( cd $W && PYTHONPATH=$W/src timeout 900 /venv/bin/python "$DIR/demo.py" >/dev/null 2>&1 ); D=$?
OUT=$(mktemp -d /tmp/seedout.XXXXXX)
cd /verif
PYTHONPATH=$W/src VERIF_EVIDENCE_DIR=$OUT/evidence VERIF_REPLAY_DIR=$OUT/replays timeout 3600 ./run $PID --tier $TIER > $OUT/log 2>&1; RC=$?
V=$(grep -c "^VIOLATION" $OUT/log)
echo "RESULT $PID $(basename $(dirname $DIR))/$(basename $DIR) demo_exit=$D check_exit=$RC violations=$V :: $(grep counterexample $OUT/log | head -2 | cut -c1-220 | tr '\n' '|') :: $(tail -1 $OUT/log | cut -c1-160)"
[ -n "$KEEP" ] && cp $OUT/log $KEEP; rm -rf $OUT
