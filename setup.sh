#!/bin/bash
# Build the overlay venv the checks run in: /venv's site-packages (the repository's own
# environment, untouched) + crosshair-tool, z3-solver, cvc5 from the offline wheelhouse.
set -e
cd "$(dirname "$0")"
V=.venv
if [ -x $V/bin/python ] && $V/bin/python -c "import crosshair, z3, numpy, torch" 2>/dev/null; then
  exit 0
fi
rm -rf $V
/venv/bin/python -m venv $V
SP=$($V/bin/python -c "import sysconfig; print(sysconfig.get_paths()['purelib'])")
echo "import site; site.addsitedir('/venv/lib/python3.12/site-packages')" > "$SP/overlay.pth"
PIP_NO_INDEX=1 $V/bin/pip install -q --no-index --find-links /opt/veriftools/wheels crosshair-tool z3-solver cvc5 >/dev/null
$V/bin/python -c "import crosshair, z3, numpy, torch; print('verif venv ok', z3.get_version_string())"
